"""A second server process on the same data directory (another worker of a multi-process
deployment): performs the requests of a job file through its own application object and
prints the answers.  Used by the Dav sessions for writes that do not go through the
long-lived server under test."""
import base64
import json
import sys

from . import compat  # noqa: F401
from .world import World


def main(path):
    job = json.load(open(path))
    w = World(frontend="wsgi", prefix=job["prefix"], root=job["root"], autocreate=False,
              principal=job["principal"])
    out = []
    try:
        for rq in job["requests"]:
            body = base64.b64decode(rq["body"]) if rq.get("body") is not None else None
            r = w.request(rq["method"], rq["path"], [tuple(h) for h in rq.get("headers", [])], body)
            out.append({"status": r.status, "headers": [list(h) for h in r.headers],
                        "body": base64.b64encode(r.body).decode()})
    finally:
        w.stop()
    sys.stdout.write(json.dumps(out))


if __name__ == "__main__":
    main(sys.argv[1])
