"""Reads overlapped by reads: a REPORT (multiget / calendar-query) running in one request
thread while another REPORT of the same kind - with another property list and other hrefs -
is answered in between, at every file-system step of the first.  Reports do not change
anything, so the first one's answer has to be the answer it gets when it runs alone."""
import urllib.parse

from . import compat  # noqa: F401
from . import alpha, gamma, sched
from .alpha import DAV, CALDAV
from .world import World

BASE = "/user/calendars/r/"
NS = 'xmlns:D="DAV:" xmlns:C="urn:ietf:params:xml:ns:caldav"'


def multiget(hrefs, data):
    props = "<D:getetag/>" + ("<C:calendar-data/>" if data else "")
    return ('<?xml version="1.0"?><C:calendar-multiget %s><D:prop>%s</D:prop>%s</C:calendar-multiget>' % (
        NS, props, "".join("<D:href>%s</D:href>" % h for h in hrefs))).encode()


def query(data, comp="VEVENT"):
    props = "<D:getetag/>" + ("<C:calendar-data/>" if data else "<D:getcontenttype/>")
    return ('<?xml version="1.0"?><C:calendar-query %s><D:prop>%s</D:prop><C:filter><C:comp-filter name="VCALENDAR">'
            '<C:comp-filter name="%s"/></C:comp-filter></C:filter></C:calendar-query>' % (NS, props, comp)).encode()


def parse(resp, w, X):
    """-> {member name: [status class, etag id, data id, has contenttype]} (ids by interner X)"""
    out = {}
    if resp is None or resp.status != 207:
        return {"_status": [str(getattr(resp, "status", 0)), 0, 0, False]}
    rs, _ = alpha.parse_multistatus(resp.body)
    b = urllib.parse.unquote(w.url(BASE))
    for x in rs:
        h = urllib.parse.unquote(x.href or "")
        n = h[len(b):] if h.startswith(b) else h
        et = x.text(DAV + "getetag")
        d = x.text(CALDAV + "calendar-data")
        ct = x.text(DAV + "getcontenttype")
        out[n] = ["notfound" if x.status == 404 else "ok", X(et) if et else 0,
                  X(d.replace("\r\n", "\n")) if d else 0, ct is not None]
    return out


PAIRS = {
    # A asks for data of three members, B for the etags of two others / the same ones
    "multiget-data/multiget-etag": (lambda w: ("1", multiget([w.url(BASE + n) for n in ("a.ics", "b.ics", "c.ics")], True)),
                                    lambda w: ("1", multiget([w.url(BASE + n) for n in ("c.ics", "a.ics")], False))),
    "multiget-etag/multiget-data": (lambda w: ("1", multiget([w.url(BASE + n) for n in ("a.ics", "b.ics", "c.ics")], False)),
                                    lambda w: ("1", multiget([w.url(BASE + n) for n in ("b.ics", "zz.ics")], True))),
    "query-data/query-etag": (lambda w: ("1", query(True)), lambda w: ("1", query(False, "VTODO"))),
    "query-etag/multiget-data": (lambda w: ("1", query(False)),
                                 lambda w: ("1", multiget([w.url(BASE + "a.ics")], True))),
}


def run_pair(name, stride=1, maxruns=60):
    from .alpha import Interner
    X = Interner()
    mkA, mkB = PAIRS[name]
    w = World(frontend="wsgi", prefix="/")
    recs = []
    try:
        assert w.request("MKCALENDAR", BASE).status in range(200, 300)
        for n, k in (("a.ics", 1), ("b.ics", 3), ("c.ics", 7)):
            assert w.request("PUT", BASE + n, [("Content-Type", "text/calendar")], gamma.model_body(k)[0]).status in range(200, 300)
        assert w.request("PUT", BASE + "t.ics", [("Content-Type", "text/calendar")],
                         gamma.ics_event("rr-todo", "a task", comp="VTODO", dtend=None)).status in range(200, 300)
        path = w.fspath(BASE.rstrip("/"))

        def req(mk):
            depth, body = mk(w)
            return lambda: w.request("REPORT", BASE, [("Content-Type", "text/xml"), ("Depth", depth)], body)
        alone = parse(req(mkA)(), w, X)
        # how many gate steps does A take when it runs alone?
        sc = sched.Scheduler(path, 1)
        with sc:
            t = sc.spawn("A", req(mkA))
            sc.finish("A")
            t.join(10)
        gates = len([1 for (x, g) in sc.trace if x == "A"])
        for i in list(range(0, gates + 1, stride))[:maxruns]:
            sc = sched.Scheduler(path, 2)
            with sc:
                ta = sc.spawn("A", req(mkA))
                sc.step("A", i)
                tb = sc.spawn("B", req(mkB))
                sc.finish("B")
                sc.finish("A")
                if sc.stuck:
                    sc.release_all()
                ta.join(10)
                tb.join(10)
            ra = sc.results.get("A")
            got = parse(ra[1] if ra and ra[0] == "ok" else None, w, X)
            recs.append({"pair": name, "i": i, "gates": gates, "alone": alone, "got": got, "stuck": sc.stuck})
        return recs
    finally:
        w.close()
