"""Reads overlapped by reads: a REPORT (multiget / calendar-query) running in one request
thread while another REPORT of the same kind - with another property list and other hrefs -
is answered in between, at every file-system step of the first.  Reports do not change
anything, so the first one's answer has to be the answer it gets when it runs alone."""
import urllib.parse

from . import compat  # noqa: F401
from . import alpha, gamma, sched
from .alpha import DAV, CALDAV
from .world import World

BASE = "/user/calendars/r/"
NS = 'xmlns:D="DAV:" xmlns:C="urn:ietf:params:xml:ns:caldav"'


def multiget(hrefs, data):
    props = "<D:getetag/>" + ("<C:calendar-data/>" if data else "")
    return ('<?xml version="1.0"?><C:calendar-multiget %s><D:prop>%s</D:prop>%s</C:calendar-multiget>' % (
        NS, props, "".join("<D:href>%s</D:href>" % h for h in hrefs))).encode()


def query(data, comp="VEVENT"):
    props = "<D:getetag/>" + ("<C:calendar-data/>" if data else "<D:getcontenttype/>")
    return ('<?xml version="1.0"?><C:calendar-query %s><D:prop>%s</D:prop><C:filter><C:comp-filter name="VCALENDAR">'
            '<C:comp-filter name="%s"/></C:comp-filter></C:filter></C:calendar-query>' % (NS, props, comp)).encode()


def parse(resp, w, X, base=None):
    """-> {member name: [status class, etag id, data id, has contenttype]} (ids by interner X)"""
    out = {}
    if resp is None or resp.status != 207:
        return {"_status": [str(getattr(resp, "status", 0)), 0, 0, 0]}
    rs, _ = alpha.parse_multistatus(resp.body)
    b = urllib.parse.unquote(w.url(base or BASE))
    for x in rs:
        h = urllib.parse.unquote(x.href or "")
        n = h[len(b):] if h.startswith(b) else h
        n = n or "."
        et = x.text(DAV + "getetag")
        d = x.text(CALDAV + "calendar-data") or x.text("{%s}address-data" % CARD)
        # which properties were answered (by status) - the shape of the answer
        shape = sorted("%s=%s" % (k.rsplit("}", 1)[-1], v[0]) for k, v in x.props.items())
        out[n] = ["notfound" if x.status == 404 else "ok", X(et) if et else 0,
                  X(d.replace("\r\n", "\n")) if d else 0, X("|".join(shape))]
    return out


ABASE = "/user/contacts/r/"
CARD = "urn:ietf:params:xml:ns:carddav"


def abquery(data, needle=None, limit=None):
    props = "<D:getetag/>" + ('<A:address-data/>' if data else "")
    flt = ('<A:filter><A:prop-filter name="FN"><A:text-match collation="i;unicode-casemap" match-type="contains">%s'
           '</A:text-match></A:prop-filter></A:filter>' % needle) if needle else "<A:filter/>"
    lim = "<A:limit><A:nresults>%d</A:nresults></A:limit>" % limit if limit is not None else ""
    return ('<?xml version="1.0"?><A:addressbook-query xmlns:D="DAV:" xmlns:A="%s"><D:prop>%s</D:prop>%s%s'
            '</A:addressbook-query>' % (CARD, props, flt, lim)).encode()


def abmultiget(hrefs, data):
    props = "<D:getetag/>" + ('<A:address-data/>' if data else "")
    return ('<?xml version="1.0"?><A:addressbook-multiget xmlns:D="DAV:" xmlns:A="%s"><D:prop>%s</D:prop>%s'
            '</A:addressbook-multiget>' % (CARD, props, "".join("<D:href>%s</D:href>" % h for h in hrefs))).encode()


def propfind(names):
    return ('<?xml version="1.0"?><D:propfind xmlns:D="DAV:" xmlns:C="urn:ietf:params:xml:ns:caldav"><D:prop>%s</D:prop>'
            '</D:propfind>' % "".join("<%s/>" % n for n in names)).encode()


# pairs on an address book (base ABASE) and PROPFIND pairs (method PROPFIND)
AB_PAIRS = {
    "abquery-all-data/abquery-limit1": (lambda w: ("1", abquery(True)), lambda w: ("1", abquery(False, limit=1))),
    "abquery-ada/abquery-bob-data": (lambda w: ("1", abquery(False, "Ada")), lambda w: ("1", abquery(True, "Bob"))),
    "abmultiget-data/abquery-etag": (lambda w: ("1", abmultiget([w.url(ABASE + n) for n in ("a.vcf", "b.vcf", "c.vcf")], True)),
                                     lambda w: ("1", abquery(False, limit=2))),
}
PF_PAIRS = {
    "propfind-etag+type/propfind-name": (lambda w: ("1", propfind(["D:getetag", "D:getcontenttype"])),
                                         lambda w: ("1", propfind(["D:displayname", "D:resourcetype"]))),
    "propfind-depth1/propfind-depth0": (lambda w: ("1", propfind(["D:getetag", "D:resourcetype"])),
                                        lambda w: ("0", propfind(["D:getetag", "D:getcontenttype", "C:calendar-description"]))),
}


PAIRS = {
    # A asks for data of three members, B for the etags of two others / the same ones
    "multiget-data/multiget-etag": (lambda w: ("1", multiget([w.url(BASE + n) for n in ("a.ics", "b.ics", "c.ics")], True)),
                                    lambda w: ("1", multiget([w.url(BASE + n) for n in ("c.ics", "a.ics")], False))),
    "multiget-etag/multiget-data": (lambda w: ("1", multiget([w.url(BASE + n) for n in ("a.ics", "b.ics", "c.ics")], False)),
                                    lambda w: ("1", multiget([w.url(BASE + n) for n in ("b.ics", "zz.ics")], True))),
    "query-data/query-etag": (lambda w: ("1", query(True)), lambda w: ("1", query(False, "VTODO"))),
    "query-etag/multiget-data": (lambda w: ("1", query(False)),
                                 lambda w: ("1", multiget([w.url(BASE + "a.ics")], True))),
}


def run_pair(name, stride=1, maxruns=60):
    from .alpha import Interner
    X = Interner()
    table = PAIRS if name in PAIRS else AB_PAIRS if name in AB_PAIRS else PF_PAIRS
    mkA, mkB = table[name]
    method = "PROPFIND" if table is PF_PAIRS else "REPORT"
    base = ABASE if table is AB_PAIRS else BASE
    w = World(frontend="wsgi", prefix="/")
    recs = []
    try:
        if table is AB_PAIRS:
            assert w.request("MKCOL", ABASE, [("Content-Type", "text/xml")], gamma.mkcol_body("addressbook")).status in range(200, 300)
            for n, fn in (("a.vcf", "Ada Lovelace"), ("b.vcf", "Bob Builder"), ("c.vcf", "Charles Babbage")):
                assert w.request("PUT", ABASE + n, [("Content-Type", "text/vcard")], gamma.vcard(fn, uid="rr-" + n)).status in range(200, 300)
        else:
            assert w.request("MKCALENDAR", BASE).status in range(200, 300)
            for n, k in (("a.ics", 1), ("b.ics", 3), ("c.ics", 7)):
                assert w.request("PUT", BASE + n, [("Content-Type", "text/calendar")], gamma.model_body(k)[0]).status in range(200, 300)
            assert w.request("PUT", BASE + "t.ics", [("Content-Type", "text/calendar")],
                             gamma.ics_event("rr-todo", "a task", comp="VTODO", dtend=None)).status in range(200, 300)
        path = w.fspath(base.rstrip("/"))

        def req(mk):
            depth, body = mk(w)
            return lambda: w.request(method, base, [("Content-Type", "text/xml"), ("Depth", depth)], body)
        alone = parse(req(mkA)(), w, X, base)
        # how many gate steps does A take when it runs alone?
        sc = sched.Scheduler(path, 1)
        with sc:
            t = sc.spawn("A", req(mkA))
            sc.finish("A")
            t.join(10)
        gates = len([1 for (x, g) in sc.trace if x == "A"])
        for i in list(range(0, gates + 1, stride))[:maxruns]:
            sc = sched.Scheduler(path, 2)
            with sc:
                ta = sc.spawn("A", req(mkA))
                sc.step("A", i)
                tb = sc.spawn("B", req(mkB))
                sc.finish("B")
                sc.finish("A")
                if sc.stuck:
                    sc.release_all()
                ta.join(10)
                tb.join(10)
            ra = sc.results.get("A")
            got = parse(ra[1] if ra and ra[0] == "ok" else None, w, X, base)
            recs.append({"pair": name, "i": i, "gates": gates, "alone": alone, "got": got, "stuck": sc.stuck})
        return recs
    finally:
        w.close()
