"""Starts `python -m xandikos` with the library shims loaded first (DESIGN 1.2a)."""
import asyncio
import sys

from harness import compat  # noqa: F401
from xandikos.__main__ import main

if __name__ == "__main__":
    sys.exit(asyncio.run(main(sys.argv[1:])))
