"""History generators for the Dav cluster: random request histories over a
richer alphabet than the TLC model (names, bodies, header lists, environment
events), steered by per-property profiles.  Deterministic in the seed."""
import random

from . import gamma, icsgen
from .davdriver import DavSession, SLOTS

# names: plain, with a blank, with an inner upper-case extension, with an upper / mixed case
# extension, and one name in both Unicode normal forms (decomposed as macOS sends it, and
# precomposed) - two different resources
ICS_NAMES = ["a.ics", "b.ics", "c.ics", "d e.ics", "E.ICS.ics", "UP.ICS", "Mixed.Ics",
             "Rene\u0301.ics", "Ren\u00e9.ics",
             # a literal percent sign followed by two hex digits, and the name it would decode to
             "ev%41.ics", "evA.ics",
             # a name beginning with a dot
             ".hidden.ics"]
VCF_NAMES = ["c.vcf", "d.vcf", "x y.vcf"]
# members of other media types (stored as they are, never validated)
OTHER_NAMES = ["notes.txt", "blob.bin"]
UIDS = ["uid-1@example.com", "uid-2@example.com", "UID-1@example.com", "uid 3 with space",
        "uid\\,4\\;esc"]
# further UID shapes (wire form): a long one that a serialiser folds, escapes, a backslash, non-ASCII,
# a URN, and a long one with an escape near the fold
UIDS_MORE = ["040000008200E00074C5B7101A82E00800000000B0C1D2E3F4A5B6C7000000000000000010000000A1B2C3D4E5F60718293A4B5C6D7E8F90",
             "esc\\;semi\\,comma", "back\\\\slash", "\u00fcid-\u00f6-\u2603", "urn:uuid:6ba7b810-9dad-11d1-80b4-00c04fd430c8",
             "long-" + "x" * 58 + "\\,tail-after-the-fold@example.com"]

COND_CLASSES = [["cur"], ["stale"], ["other"], ["star"], ["unq"], ["garbage"],
                ["other", "cur"], ["stale", "garbage"], ["garbage", "cur", "other"],
                ["qstar"], ["starin"], ["stale", "starin"], ["cur", "qstar"], ["empty"], ["blank"]]
# If-Match only (strong comparison): the current etag in weak form lists nothing the resource has
IM_CLASSES = COND_CLASSES + [["weak"], ["stale", "weak"], ["weak", "other"]]

PROP_VALUES = ["Plain", "Work calendar", "50% done", "a=b:c", "[x] # y", "Zoë ☃", "Grüße aus dem Café", "ÿÆ",
               "quote\"s'", "x"]
COLORS = ["#FF0000", "#00ff00aa", "#123456", "#ABCDEF12"]
NASTY_VALUES = ["100%25 cotton", "a%3Bb", "caf%C3%A9 menu", "rate=7%41", "%", "%%", "100%", "%(displayname)s", "%s", "[section]", "[", "#hash", "a = b",
                "key: value", "\"quoted\"", "it's", "back\\slash", "ü", "日本語 カレンダー", "a#b", "x=y=z",
                "tab\tinside", "two  spaces", "=", ":", "!bang", "${var}", "~", "a,b", "<tag>&amp;",
                # several lines / paragraphs (descriptions are free text)
                "Grüße", "naïve façade ¿qué?", "two\nlines", "para one\n\npara two", "first\n second indented", "a\n[section]\nb = c",
                "x\n# not a comment\n; neither", "l1\nl2\nl3\n\n\nl6"]
VALUE_ALPHABET = list("abcXYZ019 %[]#=:\"'\\()$!?&<>/.,-_üé☃") + ["%%", "%(", ")s"]


def gen_value(rng, allow_semicolon=True):
    """A free-text property value: no leading/trailing white space, no CR/LF."""
    if rng.random() < 0.5:
        v = rng.choice(NASTY_VALUES)
    else:
        v = "".join(rng.choice(VALUE_ALPHABET) for _ in range(rng.randint(1, 12)))
    if allow_semicolon and rng.random() < 0.15:
        v = v + ";semi"
    v = v.strip()
    return v or "x"

DEFAULT_PROFILE = {
    "put": 30, "post": 5, "delete": 10, "mk": 4, "delcoll": 2, "proppatch": 6, "restart": 3,
    "lock": 2, "get": 4, "multiget": 4, "reupload": 4, "uidquery": 1, "drain": 1, "expandquery": 1,
    "fault": 0.0,      # probability that a PUT/DELETE runs with an injected ENOSPC
    "cond": 0.35,      # probability that a PUT/DELETE carries a conditional header
    "invalid": 0.12,   # probability that a PUT body is from an invalid class
    "grammar": 0.25,   # probability that a valid body comes from the grammar-based generator
    "untyped": 0.15,   # probability that a collection is created without a type (plain MKCOL)
    "len": 24,
}

PROFILES = {
    "C01": {},
    "C02": {"rawics": 0.06, "put": 40, "reupload": 8, "proppatch": 8, "restart": 5, "grammar": 0.4, "external": 0.08, "multiget": 12, "get": 14, "cond": 0.5},
    "C03": {"cond": 0.85, "get": 12, "put": 40, "delete": 16},
    "C06": {"put": 45, "delete": 14, "restart": 6, "post": 8, "uidheavy": True, "uidquery": 8, "untyped": 0.4,
            "retype": 0.25, "proppatch": 8},
    "C07": {"delete": 18, "put": 34, "delcoll": 3, "mk": 5, "reupload": 6},
    "C08": {"proppatch": 14, "delete": 14, "reupload": 8, "restart": 5, "retype": 0.2},
    "C09": {"rawics": 0.05, "drain": 3, "proppatch": 12, "lock": 6, "reupload": 8, "delete": 9, "untyped": 0.45, "len": 36, "put": 40,
            "get": 8, "manynames": True},
    "C14": {"invalid": 0.3, "reupload": 16, "put": 40, "grammar": 0.65, "ctparams": 0.6, "otherfiles": 0.15, "expandquery": 8},
    "C15": {"proppatch": 45, "restart": 8, "mk": 6, "delcoll": 3, "put": 12, "propheavy": True, "propsingle": 0.4, "lock": 5},
    "C16": {"mk": 8, "delcoll": 5, "post": 10},
    "C17": {"rawics": 0.05, "multiget": 22, "delete": 12, "external": 0.15, "otherfiles": 0.15},
}


def profile(name):
    p = dict(DEFAULT_PROFILE)
    p.update(PROFILES.get(name, {}))
    return p


def ics_pool(rng, uidheavy=False):
    """A pool of (bytes, valid) iCalendar bodies with deliberately overlapping UIDs and
    pairs that differ only in aspects a change summary could overlook."""
    pool = []
    # few UIDs per session (so that conflicts are frequent), drawn from all shapes
    uids = (UIDS[:2] + rng.sample(UIDS[2:] + UIDS_MORE, 2)) if uidheavy else UIDS + rng.sample(UIDS_MORE, 1)
    for u in uids:
        tag = "".join(ch for ch in u if ch.isalnum())[:5]     # (never cut an escape sequence in two)
        base = dict(uid=u, summary="Meeting " + tag)
        pool.append(gamma.ics_event(**base))
        pool.append(gamma.ics_event(u, "Other text " + tag, dtstart="20200105T100000Z",
                                    dtend="20200105T120000Z"))
        # differs from the first only in SEQUENCE / a parameter / a nested alarm / DTSTAMP-like
        pool.append(gamma.ics_event(extra=("SEQUENCE:1",), **base))
        pool.append(gamma.ics_event(extra=("ATTENDEE;PARTSTAT=ACCEPTED:mailto:a@example.com",), **base))
        pool.append(gamma.ics_event(extra=("ATTENDEE;PARTSTAT=DECLINED:mailto:a@example.com",), **base))
        pool.append(gamma.ics_event(extra=("BEGIN:VALARM", "ACTION:DISPLAY", "DESCRIPTION:ring",
                                           "TRIGGER:-PT15M", "END:VALARM"), **base))
        # presentation variants of the first (same canonical content)
        pool.append(gamma.ics_event(variant=1, **base))
        pool.append(gamma.ics_event(variant=2, **base))
        # the same UID carried by a component that is not an event
        pool.append(gamma.ics_event(u, "Task " + tag, comp="VTODO", dtend=None))
    # the calendar wrapper carries a UID of its own (RFC 7986) - it is not the object's UID:
    # two objects with one wrapper UID and different event UIDs, and two with different wrapper
    # UIDs around the same event UID
    pool.append(gamma.ics_event(uids[0], "Wrapped one", calprops=("UID:wrapper-uid-1", "NAME:Exported")))
    pool.append(gamma.ics_event(uids[1], "Wrapped two", calprops=("UID:wrapper-uid-1",)))
    pool.append(gamma.ics_event(uids[0], "Wrapped three", calprops=("UID:wrapper-uid-2",),
                                dtstart="20200110T100000Z", dtend="20200110T110000Z"))
    # several VTIMEZONE blocks in one object (a flight: departure and arrival zones), before and
    # behind the event
    from .calcases import VTZ
    for k, order in enumerate((["Europe/Berlin", "America/New_York"], ["Asia/Tokyo", "Europe/Berlin", "America/New_York"])):
        lines = ["BEGIN:VCALENDAR", "VERSION:2.0", "PRODID:-//verif//flight//EN"]
        for z in order[:-1]:
            lines += VTZ[z]
        lines += ["BEGIN:VEVENT", "UID:flight-%d" % k, "DTSTAMP:20200101T000000Z",
                  "DTSTART;TZID=%s:20200301T100000" % order[0], "DTEND;TZID=%s:20200301T130000" % order[-1],
                  "SUMMARY:Flight %d" % k, "END:VEVENT"]
        lines += VTZ[order[-1]] + ["END:VCALENDAR"]
        pool.append(("\r\n".join(lines) + "\r\n").encode("utf-8"))
    pool.append(gamma.ics_event(None, "no uid at all"))
    # UIDs that spell the name (without extension) of a member another client may have created
    for stem in ("a", "b", "UP"):
        pool.append(gamma.ics_event(stem, "uid like the name " + stem))
    # a property that may occur only once occurs twice (servers may refuse these - but then
    # without leaving anything behind)
    pool.append(gamma.ics_event("odd-1", "twice", extra=("DTSTART:20200102T100000Z",)))
    pool.append(gamma.ics_event("odd-2", "twice", extra=("CLASS:PUBLIC", "CLASS:PRIVATE")))
    pool.append(gamma.ics_event("odd-3", "twice", comp="VTODO", dtend=None,
                                extra=("PERCENT-COMPLETE:10", "PERCENT-COMPLETE:20")))
    pool.append(gamma.ics_event("todo-1", "A task", comp="VTODO", dtend=None))
    # SUMMARY itself twice (what change descriptions are made from)
    pool.append(gamma.ics_event("odd-4", "first summary", extra=("SUMMARY:second summary",)))
    # the end of the body: no line break after END:VCALENDAR
    pool.append(gamma.ics_event("nonl-1", "no final newline").rstrip(b"\r\n"))
    return [(b, True) for b in pool]


def _bad_tz_body():
    from .calcases import VTZ
    lines = ["BEGIN:VCALENDAR", "VERSION:2.0", "PRODID:-//verif//badtz//EN"]
    lines += [ln if not ln.startswith("TZNAME:CET") else "TZNAME:C\x01ET" for ln in VTZ["Europe/Berlin"]]
    lines += ["BEGIN:VEVENT", "UID:bad-tz-1", "DTSTAMP:20200101T000000Z", "DTSTART;TZID=Europe/Berlin:20200301T100000",
              "SUMMARY:control character in the time zone", "END:VEVENT", "END:VCALENDAR"]
    return ("\r\n".join(lines) + "\r\n").encode("utf-8")


INVALID_ICS = [
    b"",
    b"this is not a calendar\r\n",
    b"BEGIN:VCALENDAR\r\nVERSION:2.0\r\nBEGIN:VEVENT\r\nUID:trunc\r\nSUMMARY:cut",
    b"BEGIN:VCALENDAR\r\nVERSION:2.0\r\nPRODID:x\r\nBEGIN:VEVENT\r\nUID:ctl\r\nDTSTAMP:20200101T000000Z\r\n"
    b"DTSTART:20200101T000000Z\r\nSUMMARY:bad \x01 char\r\nEND:VEVENT\r\nEND:VCALENDAR\r\n",
    b"BEGIN:VCALENDAR\r\nVERSION:2.0\r\nPRODID:x\r\nBEGIN:VEVENT\r\nUID:nest\r\nEND:VCALENDAR\r\n",
    # a forbidden control character deeper in the object: in an alarm of an event, in the
    # observance of a time zone, in a calendar-level property
    b"BEGIN:VCALENDAR\r\nVERSION:2.0\r\nPRODID:x\r\nBEGIN:VEVENT\r\nUID:ctl-alarm\r\nDTSTAMP:20200101T000000Z\r\n"
    b"DTSTART:20200101T000000Z\r\nSUMMARY:fine\r\nBEGIN:VALARM\r\nACTION:DISPLAY\r\nDESCRIPTION:bad \x01 char\r\n"
    b"TRIGGER:-PT15M\r\nEND:VALARM\r\nEND:VEVENT\r\nEND:VCALENDAR\r\n",
    b"BEGIN:VCALENDAR\r\nVERSION:2.0\r\nPRODID:x\r\nBEGIN:VTIMEZONE\r\nTZID:X/Y\r\nBEGIN:STANDARD\r\n"
    b"DTSTART:19701101T020000\r\nTZOFFSETFROM:-0400\r\nTZOFFSETTO:-0500\r\nTZNAME:E\x0cST\r\nEND:STANDARD\r\n"
    b"END:VTIMEZONE\r\nBEGIN:VEVENT\r\nUID:ctl-tz\r\nDTSTAMP:20200101T000000Z\r\nDTSTART:20200101T000000Z\r\n"
    b"SUMMARY:fine\r\nEND:VEVENT\r\nEND:VCALENDAR\r\n",
    b"BEGIN:VCALENDAR\r\nVERSION:2.0\r\nPRODID:x\r\nX-WR-CALNAME:bad \x01 name\r\nBEGIN:VEVENT\r\nUID:ctl-cal\r\n"
    b"DTSTAMP:20200101T000000Z\r\nDTSTART:20200101T000000Z\r\nSUMMARY:fine\r\nEND:VEVENT\r\nEND:VCALENDAR\r\n",
]
INVALID_ICS.append(_bad_tz_body())
INVALID_VCF = [
    b"",
    b"FN:No envelope\r\n",
    b"BEGIN:VCARD\r\nVERSION:3.0\r\nFN:cut",
    # one complete card followed by something that is not a card
    b"BEGIN:VCARD\r\nVERSION:3.0\r\nFN:Ada\r\nN:Ada;;;;\r\nEND:VCARD\r\nand then some text\r\n",
    b"BEGIN:VCARD\r\nVERSION:3.0\r\nFN:Ada\r\nN:Ada;;;;\r\nEND:VCARD\r\nBEGIN:VCARD\r\nVERSION:3.0\r\nFN:cut off",
    b"BEGIN:VCARD\r\nVERSION:3.0\r\nFN:Ada\r\nN:Ada;;;;\r\nEND:VCARD\r\n\x01\x02 junk\r\n",
    b"junk before\r\nBEGIN:VCARD\r\nVERSION:3.0\r\nFN:Ada\r\nN:Ada;;;;\r\nEND:VCARD\r\n",
]


def vcf_pool():
    return [(gamma.vcard("Ada Lovelace"), True),
            (gamma.vcard("Ada Lovelace", extra=("EMAIL:ada@example.com",)), True),
            (gamma.vcard("Zoë Müller", extra=("NICKNAME:zed,zo",)), True),
            (gamma.vcard("Charles", uid="card-uid-1"), True),
            # the end of the body: no line break after END:VCARD, bare LF endings, a blank line after
            (gamma.vcard("No Newline", uid="card-uid-nonl").rstrip(b"\r\n"), True),
            (gamma.vcard("Bare Linefeeds", uid="card-uid-lf").replace(b"\r\n", b"\n"), True),
            (gamma.vcard("Bare Linefeeds", uid="card-uid-lf").replace(b"\r\n", b"\n").rstrip(b"\n"), True),
            (gamma.vcard("Blank After", uid="card-uid-blank") + b"\r\n", True)]


def weighted(rng, table):
    tot = sum(w for _, w in table)
    r = rng.uniform(0, tot)
    acc = 0
    for k, w in table:
        acc += w
        if r <= acc:
            return k
    return table[-1][0]


def alpha_unescape(u):
    from . import alpha
    return alpha.unescape_text(u)


def first_uid_of(data):
    from . import alpha
    u = alpha.first_uid(data)
    return alpha.unescape_text(u) if u else ""


SPECIAL_BODIES = {
    # SUMMARY twice: the text change descriptions (commit messages) are made from is a list
    "twice-summary": lambda: gamma.ics_event("special-twice", "first summary", extra=("SUMMARY:second summary",)),
    "recurring": lambda: gamma.ics_event("special-rrule", "Weekly", dtstart="20200106T100000Z", dtend="20200106T110000Z",
                                         extra=("RRULE:FREQ=WEEKLY;COUNT=5",)),
    "recurring-tz": lambda: gamma.ics_event("special-rrule-2", "Daily", dtstart="20200301T090000Z", dtend="20200301T093000Z",
                                            extra=("RRULE:FREQ=DAILY;COUNT=3",)),
    "todo-uid-u": lambda: gamma.ics_event("special-uid-u", "a task holding the UID", comp="VTODO", dtend=None),
    "uid-is-a": lambda: gamma.ics_event("a", "UID spells the stem of a.ics"),
    "uid-is-path": lambda: gamma.ics_event("cal2/x", "UID with a slash"),
    "uid-u-1": lambda: gamma.ics_event("special-uid-u", "holder one"),
    "uid-u-2": lambda: gamma.ics_event("special-uid-u", "holder two", dtstart="20200109T100000Z", dtend="20200109T110000Z"),
}


def _special_body(name):
    return SPECIAL_BODIES[name]()


def run_witness_session(steps, frontend="wsgi", prefix="/", backend="tree", principal="/user/", audit_git=True,
                        gitconf="", index_threshold=None):
    """An explicit history (the witness of a listed finding): steps are [method name, args...]
    of DavSession, e.g. ["mk", "cal1", "calendar"], ["propupdate", "cal1", [["displayname", "x"]]]."""
    s = DavSession(frontend=frontend, prefix=prefix, backend=backend, principal=principal, audit_git=audit_git,
                   gitconf=gitconf, index_threshold=index_threshold)
    try:
        for st in steps:
            args = list(st[1:])
            kwargs = args.pop() if args and isinstance(args[-1], dict) else {}
            args = [gamma.model_body(int(a.split(":")[1]))[0] if isinstance(a, str) and a.startswith("@model:") else
                    (b"opaque bytes \xe2\x98\x83 " * 600)[:int(a.split(":")[1])] if isinstance(a, str) and a.startswith("@bytes:")
                    else _special_body(a[1:]) if isinstance(a, str) and a.startswith("@") and a[1:] in SPECIAL_BODIES
                    else a for a in args]
            if st[0] == "multiget":
                args[1] = [tuple(x) for x in args[1]]
            if st[0] == "propupdate":
                args[1] = [tuple(x) for x in args[1]]
            getattr(s, st[0])(*args, **kwargs)
        return s.trace(0), s.concrete
    finally:
        s.close()


GITCONFS = ["[core]\n\tautocrlf = input", "[core]\n\tautocrlf = true\n\tfilemode = false",
            "[core]\n\tquotepath = false\n\tprecomposeunicode = true"]


def run_random_session(seed, prof, frontend="wsgi", prefix="/", backend="tree", audit_git=True, principal="/user/"):
    rng = random.Random(seed)
    # one session in eight runs with git settings an administrator may have (line-ending
    # conversion ...): the served state is judged, not what `git status' says under them
    gitconf = rng.choice(GITCONFS) if rng.random() < 0.125 else ""
    if gitconf:
        audit_git = False
    s = DavSession(frontend=frontend, prefix=prefix, backend=backend, audit_git=audit_git, principal=principal,
                   gitconf=gitconf,
                   index_threshold=rng.choice([None, None, 0, 1]),
                   strict=rng.random() >= 0.25, paranoid=rng.random() < 0.2)
    try:
        ics = ics_pool(rng, prof.get("uidheavy", False))
        vcf = vcf_pool()
        slots = list(SLOTS)
        kinds = {"cal1": "calendar", "cal2": "calendar", "ab1": "addressbook"}
        # usual opening: create most collections (unless they were placed on disk)
        if backend == "tree":
            for c in slots:
                if rng.random() < 0.8:
                    k = kinds[c] if rng.random() >= prof["untyped"] else "other"
                    how = "auto"
                    if k == "calendar" and rng.random() < 0.3:
                        how = "xmkcol"
                    props = ()
                    if prof.get("propheavy") and rng.random() < 0.6:
                        props = [("displayname", gen_value(rng))]
                        if k == "calendar" and rng.random() < 0.5:
                            props.append(("calcolor", rng.choice(COLORS)))
                        if k == "addressbook" and rng.random() < 0.5:
                            props.append(("abdesc", gen_value(rng)))
                        if how == "auto" and k == "addressbook":
                            how = "xmkcol"
                    s.mk(c, k, how=how, props=props)
        stored_opaque = {}
        ops = [(k, prof.get(k, 0)) for k in ("put", "post", "delete", "mk", "delcoll", "proppatch",
                                             "restart", "lock", "get", "multiget", "reupload", "uidquery", "drain", "expandquery")]
        for _ in range(prof["len"]):
            op = weighted(rng, ops)
            c = rng.choice(slots) if rng.random() < 0.25 else rng.choice(slots[:1] + slots[-1:])
            live = s.events[-1]["audit"]["colls"].get(c, {}).get("members", {}) if s.events else {}
            if op == "put" and c != "ab1" and rng.random() < prof.get("rawics", 0):
                # a calendar object that arrives labelled as a generic file (a backup script, curl
                # without -H): a new member under a calendar name, kept verbatim by the server.
                # The body is valid, not in the server's normal form, and its UID is used nowhere else.
                n = "raw%d.ics" % rng.randint(0, 2)
                if n not in live:
                    data = gamma.ics_event("raw-uid-%s-%s" % (c, n), "Raw upload " + n, variant=rng.choice([1, 2]),
                                           extra=("LOCATION:somewhere", "DESCRIPTION:" + "long text " * 12))
                    s.put(c, n, data, ct=rng.choice(["application/octet-stream", "application/x-unknown"]),
                          valid=True, byname=True)
                    s.multiget(c, [("live", n)])
                continue
            if op == "put":
                usevcf = (c == "ab1") != (rng.random() < 0.12)
                names = VCF_NAMES if usevcf else ICS_NAMES
                if prof.get("manynames") and not usevcf:
                    names = ICS_NAMES + ["f.ics", "g.ics", "h.ics", "i.ics"]
                n = rng.choice(names)
                if rng.random() < prof.get("otherfiles", 0.08):
                    # an opaque file; its bytes are sometimes those of a body that is NOT valid as a
                    # calendar / card (and may come back later under an .ics / .vcf name)
                    n = rng.choice(OTHER_NAMES)
                    data = rng.choice(INVALID_ICS[1:] + INVALID_VCF[1:] + [b"plain text \xe2\x98\x83\n" * rng.choice([1, 400, 3000])])
                    twins = [m for m in sorted(live) if m.lower().endswith((".ics", ".vcf"))]
                    if twins and rng.random() < 0.35:
                        # a byte-for-byte copy of what the server serves for one of the calendar
                        # objects / cards, kept as an opaque file (a backup copy): same bytes, other kind
                        g0 = s.world.request("GET", s.slots[c] + "/" + rng.choice(twins))
                        if g0.status == 200:
                            data = g0.body
                    valid = True
                    stored_opaque.setdefault(c, []).append(data)
                elif rng.random() < prof["invalid"]:
                    data, valid = rng.choice(INVALID_VCF if usevcf else INVALID_ICS), False
                    # ... preferably bytes the collection already holds as an opaque file
                    again = [d for d in stored_opaque.get(c, []) if d in (INVALID_VCF if usevcf else INVALID_ICS)]
                    if again and rng.random() < 0.6:
                        data = rng.choice(again)
                elif rng.random() < prof["grammar"]:
                    # generated object; UIDs from the shared pool so that conflicts still occur
                    # mostly one UID per name (so overwrites succeed), sometimes a pooled UID (conflicts)
                    guid = ("gen-" + n) if rng.random() < 0.75 else rng.choice(UIDS[:3])
                    data = icsgen.gen_vcard(rng) if usevcf else icsgen.gen_ics(rng, guid)
                    valid = True
                else:
                    data, valid = rng.choice(vcf if usevcf else ics)
                im = inm = None
                if rng.random() < prof["cond"]:
                    r2 = rng.random()
                    if r2 < 0.5:
                        im = rng.choice(IM_CLASSES)
                    elif r2 < 0.8:
                        inm = rng.choice(COND_CLASSES)
                    else:     # both headers on one request
                        im = rng.choice(IM_CLASSES)
                        inm = rng.choice(COND_CLASSES)
                fault = rng.randint(1, 14) if rng.random() < prof["fault"] else 0
                ct = None
                if rng.random() < prof.get("ctparams", 0.3):
                    ct = gamma.decorate_ct(rng, gamma.content_type_for(n))
                ext = not fault and rng.random() < prof.get("external", 0.04)
                s.put(c, n, data, ct=ct, im=im, inm=inm, valid=valid, fault=fault,
                      chunked=(not ext and rng.random() < 0.2), external=ext,
                      segmented=(not ext and rng.random() < 0.2))
                if ext:
                    # what the long-lived server reports for a member another process wrote
                    s.multiget(c, [("live", n)])
            elif op == "post":
                usevcf = c == "ab1"
                data, valid = rng.choice(vcf if usevcf else ics)
                pct = "text/vcard" if usevcf else "text/calendar"
                if rng.random() < prof.get("ctparams", 0.3):
                    pct = gamma.decorate_ct(rng, pct)
                s.post(c, data, pct)
            elif op == "delete":
                names = sorted(live) if live and rng.random() < 0.75 else ICS_NAMES + VCF_NAMES
                n = rng.choice(names)
                im = rng.choice(IM_CLASSES) if rng.random() < prof["cond"] else None
                fault = rng.randint(1, 10) if rng.random() < prof["fault"] else 0
                s.delete(c, n, im=im, fault=fault, external=(not fault and rng.random() < prof.get("external", 0.04)))
            elif op == "mk":
                k = kinds[c] if rng.random() < 0.7 else rng.choice(["calendar", "addressbook", "other"])
                props = ()
                if prof.get("propheavy") and rng.random() < 0.6:
                    props = [("displayname", gen_value(rng))]
                s.mk(c, k, how=rng.choice(["auto", "auto", "xmkcol"]), props=props)
            elif op == "delcoll":
                s.delete_coll(c, im=rng.choice(IM_CLASSES) if rng.random() < max(0.3, prof["cond"]) else None)
            elif op == "proppatch":
                kind = s.events[-1]["audit"]["colls"].get(c, {}).get("kind", "calendar") if s.events else "calendar"
                cand = ["displayname", "comment"]
                cand += {"calendar": ["calcolor", "order", "caldesc"],
                         "addressbook": ["abcolor", "abdesc"]}.get(kind, [])
                if rng.random() < 0.1:
                    cand = ["calcolor", "abdesc", "order"]
                curprops = s.events[-1]["audit"]["colls"].get(c, {}).get("props", {}) if s.events else {}

                def value_for(p):
                    if rng.random() < 0.2:
                        return None
                    # re-send the value the property currently has (clients do: a no-op rewrite)
                    from .davdriver import NEUTRAL
                    cur = curprops.get(NEUTRAL.get(p, p))
                    if cur and rng.random() < 0.2:
                        return s.V.value(cur)
                    if p == "displayname" and rng.random() < 0.15:
                        # the name the collection shows by default (the last segment of its path)
                        return s.slots[c].rsplit("/", 1)[-1]
                    if p in ("calcolor", "abcolor"):
                        # (some clients send the colour without the leading '#')
                        return rng.choice(COLORS) if rng.random() < 0.85 else rng.choice(["FF2968", "00ff00aa"])
                    if p == "order":
                        return str(rng.randint(0, 99))
                    if prof.get("propheavy"):
                        return gen_value(rng, allow_semicolon=backend in ("tree", "bare"))
                    return rng.choice(PROP_VALUES)
                if rng.random() < prof.get("retype", 0.06):
                    # the client asks for another kind of collection (valid combinations, and ones
                    # with an element the server does not know)
                    s.propupdate(c, [("resourcetype", rng.choice(
                        ["collection,calendar", "collection,addressbook", "collection", "collection,calendar,junk",
                         "collection,addressbook,junk", "collection,junk", "junk", "calendar"]))])
                    continue
                if s.explicit and rng.random() < 0.2:
                    # a no-op rewrite: re-send a value this session stored earlier
                    (ec, ep), ev_ = rng.choice(sorted(s.explicit.items()))
                    ekind = s.events[-1]["audit"]["colls"].get(ec, {}).get("kind", "calendar")
                    conc = {"color": "abcolor" if ekind == "addressbook" else "calcolor",
                            "desc": "abdesc" if ekind == "addressbook" else "caldesc"}.get(ep, ep)
                    s.propupdate(ec, [(conc, s.V.value(ev_))])
                    continue
                # one instruction, or (as calendar clients do) several in one request: in document
                # order, sometimes with the same property twice
                k = 1 if rng.random() < prof.get("propsingle", 0.6) else rng.randint(2, 4)
                ps = [rng.choice(cand) for _ in range(k)] if rng.random() < 0.3 else rng.sample(cand, min(k, len(cand)))
                s.propupdate(c, [(p, value_for(p)) for p in ps], cdata=rng.random() < 0.15,
                             enc=rng.choice([None, None, None, "latin1-both", "latin1-prolog", "utf8-param", "appxml", "utf16"]))
            elif op == "restart":
                s.restart(defaults=rng.random() < 0.5)
            elif op == "lock":
                if c in s.locked:
                    s.lock(c, False)
                elif backend in ("tree", "treecfg"):
                    s.lock(c, True)
            elif op == "expandquery":
                s.expandquery(c)
            elif op == "drain":
                # the collection is emptied, member by member
                for n in sorted(live):
                    s.delete(c, n)
            elif op == "uidquery":
                # how clients look an object up by UID: repeated, so that a server that indexes
                # frequent queries starts answering from its index
                held = sorted({s.battr[m["b"]]["uid"] for m in live.values()
                               if m.get("b") in s.battr and s.battr[m["b"]]["uid"]})
                u = rng.choice(held) if held and rng.random() < 0.8 else alpha_unescape(rng.choice(UIDS + UIDS_MORE))
                for _k in range(rng.choice([1, 2, 7, 8])):
                    s.uidquery(c, u)
                # ... and then writes an object with that UID (under another name, or the same)
                cands = [(b, v) for (b, v) in ics if first_uid_of(b) == u]
                if cands and rng.random() < 0.6:
                    data, valid = rng.choice(cands)
                    s.put(c, rng.choice(ICS_NAMES), data, valid=valid)
            elif op == "get":
                n = rng.choice(sorted(live)) if live and rng.random() < 0.8 else rng.choice(ICS_NAMES)
                s.get(c, n, inm=rng.choice(COND_CLASSES + [None]), head=rng.random() < 0.3)
            elif op == "multiget":
                items = []
                for _k in range(rng.randint(1, 6)):
                    cls = rng.choice(["live", "live", "live", "missing", "dup", "enc", "abs", "othercoll",
                                      "othercoll", "outside", "coll", "malformed", "badutf", "dotpath", "dotpath"])
                    others = [(oc, sorted(a["members"])) for oc, a in
                              (s.events[-1]["audit"]["colls"].items() if s.events else [])
                              if oc != c and a["members"]]
                    if cls == "othercoll" and others and rng.random() < 0.8:
                        oc, names = rng.choice(others)
                        cls = "othercoll:" + oc
                        n = rng.choice(names)
                    elif cls in ("live", "dup", "enc", "abs", "dotpath") and live:
                        n = rng.choice(sorted(live))
                    elif cls == "coll":
                        n = ""
                    else:
                        n = rng.choice(ICS_NAMES + VCF_NAMES + ["zz.ics"])
                    items.append((cls, n))
                s.multiget(c, items)
            elif op == "reupload":
                # (members uploaded as generic files under a calendar name are stored verbatim, not
                # in normal form: the re-upload clause does not speak about them)
                if [m for m in live if not m.startswith("raw")]:
                    n = rng.choice(sorted(m for m in live if not m.startswith("raw")))
                    g = s.world.request("GET", s.slots[c] + "/" + n)
                    if g.status == 200:
                        s.put(c, n, g.body, re=True)
        # always leave without stale locks so the final audit is a plain one
        for c in list(s.locked):
            s.lock(c, False)
        return s.trace(seed), s.concrete
    finally:
        s.close()
