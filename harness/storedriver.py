"""Store-API level sessions (C01 C02 C03 C06 C09 on tree-git, bare-git on disk,
bare-git in memory and vdir): the same Dav outcome operators judge them.

The single store is collection "s" of the trace.  replace_etag / etag arguments
are If-Match conditions with one listed validator."""
import os
import random
import shutil

from . import compat  # noqa: F401
from . import alpha, gamma, davgen
from .alpha import Interner
from .world import git, mkscratch

from xandikos.store import (DuplicateUidError, InvalidETag, InvalidFileContents,  # noqa: E402
                            LockedError, NoSuchItem)
from xandikos.store.git import BareGitStore, TreeGitStore, GitStore  # noqa: E402
from xandikos.store.vdir import VdirStore  # noqa: E402
from xandikos.icalendar import ICalendarFile  # noqa: E402
from xandikos.vcard import VCardFile  # noqa: E402


class StoreSession:
    def __init__(self, kind):
        self.kind = kind
        self.base = mkscratch("xs-")
        self.path = os.path.join(self.base, "store")
        self.cfg = {"frontend": "store-api", "prefix": "", "backend": kind}
        self.B, self.X, self.XN, self.E, self.T, self.K = (Interner() for _ in range(6))
        self.battr = {}
        self.names = set()
        self.last_etag = {}
        self.seen_etags = {}
        self.events = []
        self.concrete = []
        self.store = self._create()
        self.init_audit = self.audit()

    def _load(self, s):
        s.load_extra_file_handler(ICalendarFile)
        s.load_extra_file_handler(VCardFile)
        return s

    def _create(self):
        if self.kind == "vdir":
            return self._load(VdirStore.create(self.path))
        if self.kind == "mem":
            return self._load(BareGitStore.create_memory())
        if self.kind == "tree":
            return self._load(TreeGitStore.create(self.path))
        if self.kind == "bare":
            return self._load(BareGitStore.create(self.path))
        raise ValueError(self.kind)

    def reopen(self):
        if self.kind == "mem":
            return False
        if self.kind == "vdir":
            self.store = self._load(VdirStore.open_from_path(self.path))
        else:
            self.store = self._load(GitStore.open_from_path(self.path))
        return True

    def close(self):
        shutil.rmtree(self.base, ignore_errors=True)

    body_id = None

    def _body_id(self, data, kind, valid=None):
        key = alpha.canon_ics(data) if kind == "ics" else (kind, data)
        b = self.B(key)
        if b not in self.battr:
            uid = ""
            if kind == "ics":
                u = alpha.first_uid(data)
                uid = alpha.unescape_text(u) if u else ""
            if valid is None:
                valid = key[0] != "unparsed"
            self.battr[b] = {"valid": bool(valid), "uid": uid, "kind": kind}
        return b

    def _etag_arg(self, spec, n):
        """None | cur | stale | other | garbage -> (etag string or None, cond record)"""
        if spec is None:
            return None, {"present": False, "star": False, "tags": []}
        cur = self.last_etag.get(n)
        if spec == "cur":
            e = cur or "0" * 40
        elif spec == "stale":
            old = [x for x in self.seen_etags.get(n, []) if x != cur]
            e = old[-1] if old else "1" * 40
        elif spec == "other":
            oth = [v for k, v in sorted(self.last_etag.items()) if k != n and v != cur]
            e = oth[0] if oth else "2" * 40
        else:
            e = "deadbeef" * 5
        return e, {"present": True, "star": False, "tags": [self.E(e)]}

    def _call(self, fn):
        try:
            r = fn()
            return "ok", "", r, 200
        except InvalidETag:
            return "precond", "", None, 412
        except DuplicateUidError:
            return "precond", "no-uid-conflict", None, 412
        except InvalidFileContents:
            return "precond", "valid-calendar-data", None, 412
        except NoSuchItem:
            return "notfound", "", None, 404
        except LockedError:
            return "locked", "", None, 423
        except Exception as exc:   # anything else is an error answer
            return "error", type(exc).__name__, None, 500

    def _record(self, ev, cls, cond, etag, status, concrete):
        ev["resp"] = {"cls": cls, "cond": cond, "etag": self.E(etag) if etag else 0, "status": status}
        ev["lk"] = False
        # the real UID bookkeeping, for conformance with UidCache.tla
        u2f = getattr(self.store, "_uid_to_fname", {})
        f2u = getattr(self.store, "_fname_to_uid", {})
        ev["u2f"] = {str(u): v[0] for u, v in u2f.items()}
        ev["f2u"] = {n: {"e": self.E(v[0]), "uid": "" if v[1] is None else str(v[1])} for n, v in f2u.items()}
        ev["audit"] = self.audit()
        self.events.append(ev)
        self.concrete.append(concrete)

    def put(self, n, data, etag_spec=None, valid=None, re=False):
        ct = gamma.content_type_for(n)
        kind = gamma.kind_for_ct(ct)
        b = self._body_id(data, kind, valid)
        self.names.add(n)
        e, cond = self._etag_arg(etag_spec, n)
        cls, c2, r, st = self._call(lambda: self.store.import_one(n, ct, [data], replace_etag=e))
        ev = {"op": "Put", "c": "s", "n": n, "b": b, "im": cond,
              "inm": {"present": False, "star": False, "tags": []}, "re": bool(re)}
        self._record(ev, cls, c2, r[1] if r else None, st,
                     {"m": "import_one", "name": n, "replace_etag": e, "body": data.decode("utf-8", "replace")})

    def delete(self, n, etag_spec=None):
        self.names.add(n)
        e, cond = self._etag_arg(etag_spec, n)
        cls, c2, r, st = self._call(lambda: self.store.delete_one(n, etag=e))
        ev = {"op": "Delete", "c": "s", "n": n, "im": cond}
        self._record(ev, cls, c2, None, st, {"m": "delete_one", "name": n, "etag": e})

    def restart(self):
        if self.reopen():
            self._record({"op": "Restart", "defaults": False}, "ok", "", None, 0, {"m": "reopen"})

    def audit(self):
        s = self.store
        listing = []
        members = {}
        ets = {}
        try:
            for (n, ct, et) in s.iter_with_etag():
                listing.append(n)
                ets[n] = et
        except Exception:
            return {"colls": {"s": {"kind": "broken", "listing": [], "members": {}, "cfg": 0, "typed": False, "tags": [],
                                    "props": {}, "sync": [], "hrefs_ok": True, "tagged": False,
                                    "git": {"bare": True, "log": [], "tree": {}, "clean": True, "fsck": True,
                                            "linear": True, "skipped": True, "status": ""}}},
                    "homes": {"calendars": [], "contacts": []}}
        for n in sorted(set(listing) | self.names):
            try:
                f = s.get_file(n)
                data = b"".join(f.content)
            except KeyError:
                self.last_etag.pop(n, None)
                continue
            except Exception:
                members[n] = {"b": 0, "x": 0, "xn": 0, "e": 0, "views": [], "dviews": [], "st": 500}
                continue
            et = ets.get(n)
            kindn = gamma.kind_for_ct(gamma.content_type_for(n))
            views = [self.E(et) if et else 0]
            try:
                views.append(self.E(s._get_etag(n)))
            except Exception:
                views.append(0)
            members[n] = {"b": self._body_id(data, kindn), "x": self.X(data),
                          "xn": self.XN(data.replace(b"\r\n", b"\n")),
                          "e": self.E(et) if et else 0, "views": views, "dviews": [], "st": 200}
            if et:
                if self.last_etag.get(n) != et:
                    self.seen_etags.setdefault(n, []).append(et)
                self.last_etag[n] = et
        tags = []
        tagged = self.kind != "vdir"
        if tagged:
            try:
                tags = [self.T(s.get_ctag())]
            except Exception:
                tags = []
        gitinfo = {"bare": self.kind != "tree", "log": [], "tree": {}, "clean": True, "fsck": True,
                   "linear": True, "skipped": True, "status": "", "cfg": 0}
        if self.kind in ("tree", "bare"):
            gitinfo = self._audit_git()
        cfgid = gitinfo.pop("cfg", 0)
        return {"colls": {"s": {"kind": "other", "listing": listing, "members": members, "cfg": cfgid, "typed": False,
                                "tags": tags, "props": {}, "sync": [], "hrefs_ok": True,
                                "tagged": tagged, "git": gitinfo}},
                "homes": {"calendars": [], "contacts": []}}

    def _audit_git(self):
        p = self.path
        info = {"bare": self.kind != "tree", "log": [], "tree": {}, "clean": True, "fsck": True,
                "cfg": 0, "linear": True, "skipped": False, "status": ""}
        head = git(p, "rev-parse", "--verify", "-q", "HEAD", check=False)
        if head.returncode == 0:
            prev = None
            for ln in git(p, "rev-list", "--parents", "--reverse", "HEAD").stdout.decode().split("\n"):
                f = ln.split()
                if not f:
                    continue
                if (prev is None and len(f) != 1) or (prev is not None and f[1:] != [prev]):
                    info["linear"] = False
                prev = f[0]
                info["log"].append(self.K(f[0]))
            for ent in git(p, "ls-tree", "-r", "-z", "HEAD").stdout.split(b"\0"):
                if not ent:
                    continue
                meta, _, name = ent.partition(b"\t")
                cf = git(p, "cat-file", "blob", meta.split()[2].decode(), check=False)
                if cf.returncode != 0:
                    # the tree names an object the repository does not hold: an observation
                    info["fsck"] = False
                    info["status"] = "git-error: unreadable object in HEAD tree"
                    continue
                blob = cf.stdout
                nm = name.decode("utf-8", "replace")
                if nm == ".xandikos":
                    info["cfg"] = self.X(blob)
                else:
                    info["tree"][nm] = self.X(blob)
        if self.kind == "tree":
            st = git(p, "status", "--porcelain", check=False)
            info["clean"] = st.returncode == 0 and st.stdout.strip() == b""
            info["status"] = st.stdout.decode("utf-8", "replace")[:200]
        info["fsck"] = info["fsck"] and git(p, "fsck", "--strict", "--no-dangling", check=False).returncode == 0
        return info

    def trace(self, tid):
        bodies = [self.battr.get(i, {"valid": False, "uid": "", "kind": "other"})
                  for i in range(1, len(self.B) + 1)]
        return {"id": tid, "cfg": self.cfg, "bodies": bodies, "init": self.init_audit,
                "events": self.events}


def run_store_session(seed, kind, profname):
    rng = random.Random(seed)
    prof = davgen.profile(profname)
    s = StoreSession(kind)
    try:
        ics = davgen.ics_pool(rng, prof.get("uidheavy", False))
        vcf = davgen.vcf_pool()
        small = rng.random() < 0.7     # small name pool: same paths are hit again and again
        icsn = davgen.ICS_NAMES[:2] if small else davgen.ICS_NAMES
        vcfn = davgen.VCF_NAMES[:1] if small else davgen.VCF_NAMES
        for _ in range(prof["len"] + 16):
            r = rng.random()
            live = sorted(s.events[-1]["audit"]["colls"]["s"]["members"]) if s.events else []
            spec = rng.choice(["cur", "cur", "cur", "stale", "stale", "other", "garbage"]) \
                if rng.random() < min(prof["cond"], 0.55) else None
            if r < 0.62:
                usevcf = rng.random() < 0.3
                n = rng.choice(vcfn if usevcf else icsn)
                if rng.random() < prof["invalid"]:
                    data, valid = rng.choice(davgen.INVALID_VCF if usevcf else davgen.INVALID_ICS), False
                else:
                    data, valid = rng.choice(vcf if usevcf else ics)
                s.put(n, data, etag_spec=spec, valid=valid)
            elif r < 0.82:
                n = rng.choice(live) if live and rng.random() < 0.75 else \
                    rng.choice(icsn + vcfn)
                s.delete(n, etag_spec=spec)
            elif r < 0.9:
                s.restart()
            elif live:
                n = rng.choice(live)
                data = b"".join(s.store.get_file(n).content)
                s.put(n, data, re=True)
        return s.trace(seed), s.concrete
    finally:
        s.close()
