"""Show the step a replay file complains about: request, response, audit before/after."""
import json
import sys


def brief(a):
    out = {}
    for c, co in a["colls"].items():
        out[c] = {"kind": co["kind"], "listing": co["listing"],
                  "members": {n: (m["b"], m["x"], m["e"], m["st"]) for n, m in co["members"].items()},
                  "props": co["props"], "tags": co["tags"], "cfg": co["cfg"],
                  "log": co["git"]["log"], "status": co["git"].get("status", "")}
    out["homes"] = a["homes"]
    return out


def main():
    r = json.load(open(sys.argv[1]))
    i = r["step"]
    tr = r["trace"]
    print("clause:", r["clause"], r["detail"][:600])
    print("job:", {k: v for k, v in (r.get("job") or {}).items() if k != "rqs"})
    lo = max(1, i - int(sys.argv[2]) if len(sys.argv) > 2 else i)
    for k in range(lo, i + 1):
        ev = tr["events"][k - 1]
        print("--- step", k, {x: ev[x] for x in ev if x != "audit"})
        if r.get("requests"):
            print("    concrete:", json.dumps(r["requests"][k - 1])[:700])
    pre = tr["init"] if i == 1 else tr["events"][i - 2]["audit"]
    post = tr["events"][i - 1]["audit"]
    print("PRE ", json.dumps(brief(pre), sort_keys=True))
    print("POST", json.dumps(brief(post), sort_keys=True))


if __name__ == "__main__":
    main()
