"""C16: listings are complete and every href the server emits resolves."""
import json
import logging
import multiprocessing
import os
import random
import re
import shutil
import tempfile
import traceback

from . import common, tlc


def _quiet():
    logging.disable(logging.CRITICAL)
    try:
        os.dup2(open(os.devnull, "w").fileno(), 2)
    except OSError:
        pass


def _debug_logging(on):
    """The deployment runs with --debug: the root logger is at DEBUG (its output goes nowhere)."""
    root = logging.getLogger()
    if on:
        logging.disable(logging.NOTSET)
        if not any(isinstance(h, logging.NullHandler) for h in root.handlers):
            root.addHandler(logging.NullHandler())
        root.setLevel(logging.DEBUG)
    else:
        root.setLevel(logging.WARNING)
        logging.disable(logging.CRITICAL)


def _work(job):
    _quiet()
    from . import hrefcases
    try:
        _debug_logging(bool(job.get("debug")))
        try:
            n, c = hrefcases.run_config(job["cases"], job["frontend"], job["prefix"])
        finally:
            _debug_logging(False)
        if job.get("debug"):
            c["prefix"] = c["prefix"] + "+debug"
        return {"ok": True, "names": n, "cfg": c}
    except Exception:
        return {"ok": False, "error": traceback.format_exc()}


def _work_layout(job):
    _quiet()
    from . import layoutcases
    try:
        recs, refused = [], set()
        _debug_logging(bool(job.get("debug")))
        try:
            for t in job["trees"]:
                r, rf = layoutcases.run_layout(t, job["frontend"], job["prefix"])
                recs.extend(r)
                refused.update(rf)
        finally:
            _debug_logging(False)
        return {"ok": True, "recs": recs, "refused": sorted(refused)}
    except Exception:
        return {"ok": False, "error": traceback.format_exc()}


def enumerate_layouts():
    work = tempfile.mkdtemp(prefix="lay-", dir=tlc.SCRATCH_ROOT)
    try:
        rf = os.path.join(work, "cases.json")
        res = tlc.run_tlc("LayoutCases", cfg_text=open(os.path.join(tlc.SPEC_DIR, "LayoutCases.cfg")).read(),
                          env={"RESULT_FILE": rf}, workers=1, timeout=600)
        if not tlc.ok(res) or not os.path.exists(rf):
            common.machinery_failure("LayoutCases failed:\n" + res["out"][-3000:])
        return json.load(open(rf))["cases"]
    finally:
        shutil.rmtree(work, ignore_errors=True)


def enumerate_cases(maxlen, full):
    work = tempfile.mkdtemp(prefix="hr-", dir=tlc.SCRATCH_ROOT)
    try:
        rf = os.path.join(work, "cases.json")
        cfg = open(os.path.join(tlc.SPEC_DIR, "HrefCases.cfg")).read()
        cfg = re.sub(r"MaxLen = \d+", "MaxLen = %d" % maxlen, cfg)
        cfg = re.sub(r"Full = \w+", "Full = %s" % ("TRUE" if full else "FALSE"), cfg)
        res = tlc.run_tlc("HrefCases", cfg_text=cfg, env={"RESULT_FILE": rf}, workers=1, timeout=1200)
        if not tlc.ok(res) or not os.path.exists(rf):
            common.machinery_failure("HrefCases failed:\n" + res["out"][-3000:])
        return json.load(open(rf))["cases"]
    finally:
        shutil.rmtree(work, ignore_errors=True)


def run(prop, tier, seed, replay=None):
    rep = common.Report(prop, tier, seed, "exploration")
    devs = common.open_devs("Href")
    quick = tier == "quick"
    cases = enumerate_cases(3, not quick)
    rng = random.Random(seed)
    jobs = []
    configs = [(f, p) for f in ("wsgi", "aiohttp") for p in ("/", "/dav/", "/a/b/")]
    chunk = 70
    order = list(cases)
    rng.shuffle(order)
    parts = [order[i:i + chunk] for i in range(0, len(order), chunk)]
    for ci, (f, p) in enumerate(configs):
        for pi, part in enumerate(parts):
            # quick: every name under every front end, prefixes rotated; thorough: full product
            if quick and (pi + ci) % 3 != 0 and p != "/":
                continue
            jobs.append({"cases": part, "frontend": f, "prefix": p})
    # a deployment started with --debug (one part of the names per front end)
    for f in ("wsgi", "aiohttp"):
        jobs.append({"cases": parts[0][:40], "frontend": f, "prefix": "/", "debug": True})
    # collection layouts (Layout.tla): every layout under every front end; quick rotates the prefixes
    layouts = enumerate_layouts()
    ljobs = []
    for ci, (f, p) in enumerate(configs):
        mine = [t for k, t in enumerate(layouts) if not quick or (k + ci) % 3 == 0 or p == "/"]
        for i in range(0, len(mine), 8):
            ljobs.append({"trees": mine[i:i + 8], "frontend": f, "prefix": p})
    ljobs.append({"trees": layouts[:8], "frontend": "wsgi", "prefix": "/", "debug": True})
    if replay and json.load(open(replay)).get("layout"):
        r = json.load(open(replay))["layout"]
        jobs = []
        ljobs = [{"trees": [r["tree_full"]], "frontend": r["frontend"],
                  "prefix": "/" if r["prefix"] == "root" else "/" + r["prefix"] + "/"}]
    with multiprocessing.get_context("fork").Pool(15) as pool:
        outs = pool.map(_work, jobs, chunksize=1)
        louts = pool.map(_work_layout, ljobs, chunksize=1)
    lrecs, lrefused = [], set()
    for o in louts:
        if not o["ok"]:
            common.machinery_failure("harness exception:\n" + o["error"])
        lrecs.extend(o["recs"])
        lrefused.update(o["refused"])
    if lrecs:
        lres, lstat = tlc.validate_traces("LayoutTrace", "LayoutTrace.cfg", {"recs": lrecs},
                                          constants={"EnabledDevs": tlc.tla_set(devs)}, timeout=3000)
        for v in sorted(lres, key=lambda v: (v["dev"], v["i"])):
            rec = lrecs[v["i"] - 1]
            if v["k"] == "known":
                rep.known_finding(v["dev"], devs.get(v["dev"], {}).get("what", v["dev"]))
            else:
                rep.violation("%s PROPFIND (%s) Depth %d at node %s listed %s ; layout=%s (%s, prefix %s)" % (
                    v["dev"], rec.get("body"), rec["depth"], rec["at"], rec["got"],
                    [(n["id"], n["parent"], n["kind"]) for n in rec["tree"]], rec["frontend"], rec["prefix"]),
                    {"property": prop, "verdict": v, "layout": dict(rec, tree_full=rec["tree"])})
        rep.coverage["layouts"] = {"layouts": len(layouts), "listings_judged": len(lrecs), "states": lstat["distinct"],
                                   "creations_refused_by_the_server": sorted(lrefused)}
    names, cfgs = [], []
    for o in outs:
        if not o["ok"]:
            common.machinery_failure("harness exception:\n" + o["error"])
        names.extend(o["names"])
        cfgs.append(o["cfg"])
    if names or cfgs:
        results, stat = tlc.validate_traces("HrefTrace", "HrefTrace.cfg", {"names": names, "cfgs": cfgs},
                                            constants={"EnabledDevs": tlc.tla_set(devs)}, timeout=3000)
    else:
        results, stat = [], {"distinct": 0}
    from . import hrefcases
    for v in sorted(results, key=lambda v: (v["dev"], v["i"])):
        rec = (names if v["t"] == "n" else cfgs)[v["i"] - 1]
        if v["k"] == "known":
            rep.known_finding(v["dev"], devs.get(v["dev"], {}).get("what", v["dev"]))
        else:
            show = dict(rec)
            if "name" in show:
                show["concrete"] = hrefcases.concrete(show["name"])
            rep.violation("%s case=%s" % (v["dev"], json.dumps(show, ensure_ascii=False)[:400]),
                          {"property": prop, "verdict": v, "case": show})
    from . import readoverlap, reportrace
    readoverlap.check(rep, list(reportrace.PF_PAIRS))
    rep.coverage.update({
        "evaluations": sum(len(n["ctx"]) for n in names) + sum(len(c["checks"]) for c in cfgs),
        "distinct_nontrivial": len({(tuple(n["name"]), n["frontend"], n["prefix"]) for n in names
                                    if any(c not in ("x", "2", "4", "0") for c in n["name"])}),
        "rule": "names = all sequences up to length 3 over 11 character classes (letter, space, %%, #, ?, ;, +, "
                "non-ASCII, digits 2 4 0 so that escape-like names such as %%20 occur)%s; one evaluation = one "
                "(name, emitting context) round trip: the href as emitted is requested verbatim and must return "
                "the resource it was emitted for; contexts: PROPFIND Depth 1 and 0, sync-collection, "
                "calendar-query, multiget, POST Location, PROPPATCH / 404 response hrefs; 3 route prefixes x 2 "
                "front ends; non-trivial = the name contains a reserved or non-ASCII character; "
                "layouts = the 60 collection trees of Layout.tla (a calendar / addressbook / plain collection holding "
                "any subset of {file, plain sub-collection, calendar sub-collection}, the sub-collection holding any "
                "subset of {file, collection}; names with '#', ' ', '%%20', '+'), PROPFIND Depth 0 and 1 at every "
                "collection of the tree, every listed href dereferenced as sent and identified by display name / UID"
                % ("" if not quick else " (quick: the longest names restricted to escape-like and mixed-class ones)"),
        "samples": names[:3] + cfgs[:1],
        "names": len(cases), "configurations": len(jobs),
        "states": stat["distinct"],
        "exhaustive": not quick,
    })
    rep.assumptions += ["harness/compat.py library shims", "identity of a resource = the UID in the body GET returns"]
    return rep.finish()
