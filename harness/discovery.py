"""C18 driver: real server processes, the RFC 6764 style discovery walk with a raw
client, restarts, and digests of the data directory."""
import hashlib
import os
import shutil
import signal
import socket
import subprocess
import sys
import time
import urllib.parse

from . import alpha, gamma
from .alpha import DAV, CALDAV, CARDDAV
from .world import mkscratch, parse_http_response

HERE = os.path.dirname(os.path.abspath(__file__))


_PORT_SEQ = [0]


def _port_bounds():
    low, high = 10000, 32000
    try:
        lo, hi = [int(x) for x in open("/proc/sys/net/ipv4/ip_local_port_range").read().split()]
        if lo > 12000:
            high = min(high, lo - 1)
        elif hi < 50000:
            low, high = hi + 1, 65000
    except (OSError, ValueError):
        pass
    return low, high


PORT_LOW, PORT_HIGH = _port_bounds()
PORT_LOCKS = os.path.join(os.environ.get("VERIF_SCRATCH", "/var/tmp"), "verif-port-locks")


def _claim(port):
    """Cross-process ownership of a port number (several checks may run at the same time): a lock
    file created with O_EXCL, holding our pid; a lock whose owner is dead is taken over."""
    os.makedirs(PORT_LOCKS, exist_ok=True)
    lp = os.path.join(PORT_LOCKS, "%d.lock" % port)
    for _ in range(2):
        try:
            fd = os.open(lp, os.O_CREAT | os.O_EXCL | os.O_WRONLY, 0o644)
            os.write(fd, str(os.getpid()).encode())
            os.close(fd)
            return True
        except FileExistsError:
            try:
                owner = int(open(lp).read().strip() or "0")
            except (OSError, ValueError):
                owner = 0
            if owner and os.path.exists("/proc/%d" % owner):
                return False
            try:
                os.unlink(lp)           # stale: its owner is gone
            except OSError:
                return False
    return False


def release_port(port):
    try:
        os.unlink(os.path.join(PORT_LOCKS, "%d.lock" % port))
    except OSError:
        pass


def free_port():
    """A port nobody listens on, claimed for this process (see _claim): a port handed out by the
    kernel could be handed to another worker before our server has bound it - two deployments
    would then talk to each other's servers."""
    # (below the kernel's ephemeral range - see PORT_LOW / PORT_HIGH: a port in that range can be
    #  taken as the source port of any outgoing connection between our test and the server's bind)
    base = PORT_LOW + (os.getpid() % ((PORT_HIGH - PORT_LOW) // 20)) * 20
    for k in range(400):
        p = base + _PORT_SEQ[0] % 20 if k < 40 else PORT_LOW + (base + k * 7 + _PORT_SEQ[0]) % (PORT_HIGH - PORT_LOW)
        _PORT_SEQ[0] += 1
        if not _claim(p):
            continue
        s = socket.socket()
        try:
            s.bind(("127.0.0.1", p))
            return p
        except OSError:
            release_port(p)
            continue
        finally:
            s.close()
    raise RuntimeError("no free port")


def http(port, method, target, headers=(), body=None, timeout=30):
    """One request; a connection reset by a busy single-threaded test server is retried."""
    last = None
    for attempt in range(4):
        try:
            return _http(port, method, target, headers, body, timeout)
        except (ConnectionResetError, ConnectionRefusedError, BrokenPipeError, socket.timeout) as exc:
            last = exc
            time.sleep(0.2 * (attempt + 1))
    raise last


def _http(port, method, target, headers=(), body=None, timeout=30):
    s = socket.create_connection(("127.0.0.1", port), timeout=timeout)
    try:
        lines = ["%s %s HTTP/1.1" % (method, target), "Host: localhost", "Connection: close"]
        hdrs = list(headers)
        if body is not None:
            hdrs.append(("Content-Length", str(len(body))))
        for k, v in hdrs:
            lines.append("%s: %s" % (k, v))
        s.sendall(("\r\n".join(lines) + "\r\n\r\n").encode("iso-8859-1") + (body or b""))
        chunks = []
        while True:
            c = s.recv(65536)
            if not c:
                break
            chunks.append(c)
    finally:
        s.close()
    return parse_http_response(b"".join(chunks), method)


class Server:
    def __init__(self, frontend, directory, prefix, principal, flags):
        for attempt in range(4):
            self._launch(frontend, directory, prefix, principal, flags)
            if self.up or self.proc.poll() is None:
                return
            err = ""
            try:
                err = self.proc.stderr.read().decode("utf-8", "replace")
            except Exception:
                pass
            self._early_stderr = err
            if "Address already in use" not in err and "address already in use" not in err:
                return
            release_port(self.port)         # somebody else got the port first: another one

    def _launch(self, frontend, directory, prefix, principal, flags):
        self.port = free_port()
        env = dict(os.environ)
        env["PYTHONPATH"] = os.environ.get("PYTHONPATH", "/verif:/repo")
        env["PYTHONDONTWRITEBYTECODE"] = "1"
        env["TZ"] = "UTC"
        if frontend == "aiohttp":
            cmd = [sys.executable, os.path.join(HERE, "launch_aiohttp.py"), "-d", directory, "-p", str(self.port),
                   "-l", "127.0.0.1", "--route-prefix", prefix, "--current-user-principal", principal]
            if flags == "autocreate":
                cmd.append("--autocreate")
            elif flags == "defaults":
                cmd.append("--defaults")
        else:
            env["XANDIKOSPATH"] = directory
            env["CURRENT_USER_PRINCIPAL"] = principal
            env["AUTOCREATE"] = {"none": "no", "autocreate": "yes", "defaults": "defaults"}[flags]
            cmd = [sys.executable, os.path.join(HERE, "launch_wsgi.py"), str(self.port), prefix]
        self.proc = subprocess.Popen(cmd, env=env, stdout=subprocess.DEVNULL, stderr=subprocess.PIPE, cwd=os.path.dirname(HERE))
        self.up = False
        t0 = time.time()
        while time.time() - t0 < 20:
            if self.proc.poll() is not None:
                break
            try:
                socket.create_connection(("127.0.0.1", self.port), timeout=0.2).close()
                self.up = True
                break
            except OSError:
                time.sleep(0.05)

    def stop(self):
        if self.proc.poll() is None:
            self.proc.send_signal(signal.SIGKILL)
        try:
            self.proc.wait(5)
        except Exception:
            pass
        release_port(self.port)
        try:
            self.stderr = (getattr(self, "_early_stderr", "") + self.proc.stderr.read().decode("utf-8", "replace"))[-2000:]
        except Exception:
            self.stderr = getattr(self, "_early_stderr", "")[-500:]


def resolve(base_target, href):
    """RFC 3986 reference resolution of an emitted href against the request target."""
    return urllib.parse.urljoin(base_target, href)


def propfind(port, target, depth, props_xml):
    body = ('<?xml version="1.0"?><D:propfind xmlns:D="DAV:" xmlns:C="urn:ietf:params:xml:ns:caldav" '
            'xmlns:A="urn:ietf:params:xml:ns:carddav"><D:prop>%s</D:prop></D:propfind>' % props_xml).encode()
    r = http(port, "PROPFIND", target, [("Depth", depth), ("Content-Type", "text/xml")], body)
    if r.status != 207:
        return None
    try:
        return alpha.parse_multistatus(r.body)[0]
    except ValueError:
        return None


def first_href(el):
    if el is None:
        return None
    for ch in el:
        if ch.tag == DAV + "href":
            return ch.text
    return None


def walk(port, prefix):
    """-> dict(wellknown, principal_ok, calendars: [hrefs], addressbooks: [hrefs], trail)"""
    out = {"wellknown": False, "principal_ok": False, "calendars": [], "addressbooks": [], "trail": []}
    r = http(port, "GET", "/.well-known/caldav")
    loc = r.header("Location") or ""
    start = prefix
    if r.status in (301, 302, 303, 307, 308) and loc:
        p = urllib.parse.urlsplit(loc).path
        out["wellknown"] = p.rstrip("/") == prefix.rstrip("/")
        start = p or prefix
    out["trail"].append(("well-known", r.status, loc))
    rs = propfind(port, start, "0", "<D:current-user-principal/>")
    if not rs:
        out["trail"].append(("root", "no multistatus"))
        return out
    cup = first_href(rs[0].prop_ok(DAV + "current-user-principal"))
    out["trail"].append(("current-user-principal", cup))
    if not cup:
        return out
    ptarget = resolve(start, cup)
    rs = propfind(port, ptarget, "0", "<D:resourcetype/><C:calendar-home-set/><A:addressbook-home-set/>")
    if not rs:
        out["trail"].append(("principal", "no multistatus", ptarget))
        return out
    rt = rs[0].prop_ok(DAV + "resourcetype")
    is_principal = rt is not None and any(ch.tag == DAV + "principal" for ch in rt)
    chs = first_href(rs[0].prop_ok(CALDAV + "calendar-home-set"))
    ahs = first_href(rs[0].prop_ok(CARDDAV + "addressbook-home-set"))
    out["trail"].append(("principal", ptarget, is_principal, chs, ahs))
    out["principal_ok"] = bool(is_principal and chs and ahs)
    # the base for resolving the home-set hrefs is the href the principal answered with
    pbase = resolve(ptarget, rs[0].href or ptarget)
    for key, hs, marker in (("calendars", chs, CALDAV + "calendar"), ("addressbooks", ahs, CARDDAV + "addressbook")):
        if not hs:
            continue
        htarget = resolve(pbase, hs)
        rs2 = propfind(port, htarget, "1", "<D:resourcetype/><D:displayname/>")
        out["trail"].append((key, htarget, None if rs2 is None else len(rs2)))
        for x in rs2 or []:
            t = x.prop_ok(DAV + "resourcetype")
            if t is not None and any(ch.tag == marker for ch in t):
                out[key].append(resolve(htarget, x.href))
    return out


def home_listing(port, w):
    """what discovery shows: (href, resource types) of everything in the two home sets"""
    out = set()
    for trail in w.get("trail", []):
        if trail and trail[0] in ("calendars", "addressbooks") and len(trail) > 1 and isinstance(trail[1], str):
            rs = propfind(port, trail[1], "1", "<D:resourcetype/>")
            for x in rs or []:
                t = x.prop_ok(DAV + "resourcetype")
                kinds = tuple(sorted(ch.tag for ch in t)) if t is not None else ()
                out.add((resolve(trail[1], x.href or ""), kinds))
    return sorted(out)


def digest(directory):
    """Everything a restart must not touch: work-tree files, refs, HEAD, config, description."""
    out = {}
    for root, dirs, files in os.walk(directory):
        dirs.sort()
        rel = os.path.relpath(root, directory)
        parts = rel.split(os.sep)
        if ".git" in parts:
            i = parts.index(".git")
            sub = parts[i + 1:]
            if sub and sub[0] in ("objects", "logs", "hooks", "info", "branches"):
                dirs[:] = []
                continue
        out[rel + "/"] = "dir"
        for f in sorted(files):
            if f in ("index",) and ".git" in parts:
                continue
            try:
                with open(os.path.join(root, f), "rb") as fh:
                    out[os.path.join(rel, f)] = hashlib.sha1(fh.read()).hexdigest()
            except OSError:
                pass
    return out


def to_bare(cal_dir):
    """The administrator converts a collection to a bare repository (e.g. restored from a
    `git clone --bare` backup): same history, same contents, no work tree."""
    import subprocess
    tmp = cal_dir.rstrip("/") + ".bare-tmp"
    subprocess.run(["git", "clone", "-q", "--bare", cal_dir, tmp], check=True,
                   stdout=subprocess.DEVNULL, stderr=subprocess.DEVNULL)
    # collection settings kept in the repository configuration travel along
    shutil.rmtree(cal_dir)
    os.rename(tmp, cal_dir)


class Unreachable(Exception):
    """The server process is alive but its port refuses connections: the environment (port
    clash, overload), not an observation about xandikos."""


def run_config(frontend, prefix, principal, flagseq, storage="tree"):
    for attempt in range(3):
        try:
            return _run_config(frontend, prefix, principal, flagseq, storage)
        except Unreachable:
            time.sleep(1.0 + attempt)
    return _run_config(frontend, prefix, principal, flagseq, storage)


def _run_config(frontend, prefix, principal, flagseq, storage="tree"):
    base = mkscratch("xd-")
    directory = os.path.join(base, "data")
    starts = []
    info = {"frontend": frontend, "prefix": prefix, "principal": principal, "flags": list(flagseq),
            "storage": storage}
    try:
        prev_digest = None
        prev_listing = None
        user = {}
        for k, flags in enumerate(flagseq):
            if flags == "none" and not os.path.isdir(directory):
                os.makedirs(directory)
            before = digest(directory) if os.path.isdir(directory) else {}
            srv = Server(frontend, directory, prefix, principal, flags)
            rec = {"flags": flags, "up": srv.up, "wellknown": False, "principal_ok": False, "cal_ok": False,
                   "ab_ok": False, "userdata_ok": True, "preserved": True, "trail": "", "listing_same": True}
            try:
              try:
                if srv.up:
                    w = walk(srv.port, prefix)
                    rec["wellknown"] = w["wellknown"]
                    rec["principal_ok"] = w["principal_ok"]
                    rec["cal_ok"] = len(w["calendars"]) > 0
                    rec["ab_ok"] = len(w["addressbooks"]) > 0
                    rec["trail"] = repr(w["trail"])[:600]
                    if prev_listing is not None and flags != "defaults" and storage in ("tree", "moved"):
                        # (a start with --defaults may add the default collections; a calendar that
                        #  was converted to a bare repository in between is judged by its contents)
                        rec["listing_same"] = home_listing(srv.port, w) == prev_listing
                    after_start = digest(directory)
                    # nothing that existed before this start may have changed or vanished
                    rec["preserved"] = all(after_start.get(p) == h for p, h in before.items())
                    if user:
                        g = http(srv.port, "GET", user["event"])
                        rec["userdata_ok"] = g.status == 200 and user["uid"].encode() in g.body
                        if rec["userdata_ok"] and user.get("cal2"):
                            rec["userdata_ok"] = user["cal2"] in w["calendars"]
                    elif w["calendars"]:
                        cal = sorted(w["calendars"])[0]
                        uid = "discovery-user-data@example.com"
                        ev = urllib.parse.urljoin(cal, "userdata.ics")
                        p = http(srv.port, "PUT", ev, [("Content-Type", "text/calendar")], gamma.ics_event(uid, "keep me"))
                        if p.status in range(200, 300):
                            user = {"event": ev, "uid": uid}
                            c2 = urllib.parse.urljoin(cal, "../second/")
                            m = http(srv.port, "MKCALENDAR", c2)
                            if m.status in range(200, 300):
                                user["cal2"] = c2
                                # the user describes the collections: free text of several
                                # paragraphs, with the characters configuration files care about
                                # ... and makes a collection with a plain MKCOL (a generic WebDAV
                                # client), then puts an event into it
                                c3 = urllib.parse.urljoin(cal, "../third/")
                                if http(srv.port, "MKCOL", c3).status in range(200, 300):
                                    http(srv.port, "PUT", urllib.parse.urljoin(c3, "t.ics"), [("Content-Type", "text/calendar")],
                                         gamma.ics_event("third-1@example.com", "in the plain collection"))
                                # a client configured with the home set's URL instead of a collection's
                                # uploads an object straight into the home set
                                http(srv.port, "PUT", urllib.parse.urljoin(cal, "../stray.ics"), [("Content-Type", "text/calendar")],
                                     gamma.ics_event("stray-1@example.com", "uploaded into the home set"))
                                for ab in sorted(w["addressbooks"])[:1]:
                                    http(srv.port, "PUT", urllib.parse.urljoin(ab, "../stray.vcf"), [("Content-Type", "text/vcard")],
                                         gamma.vcard("Stray Card", uid="stray-card-1"))
                                for target, text in ((c2, "Second calendar\n\nshared with the team; 100% [draft] #1 = a:b"),
                                                     (cal, "Priv\u00e9 \u2603\n\ncalendar")):
                                    http(srv.port, "PROPPATCH", target, [("Content-Type", "text/xml")],
                                         gamma.proppatch_body([("caldesc", text), ("comment", text), ("displayname", text.split("\n")[0])]))
                if srv.up:
                    try:
                        prev_listing = home_listing(srv.port, walk(srv.port, prefix))
                    except OSError:
                        prev_listing = None
              except OSError as exc:
                if srv.proc.poll() is None:
                    raise Unreachable(repr(exc))
                # the server process ended in the middle of the walk: an observation
                rc_ = srv.proc.poll()
                rec["up"] = False
                srv.stop()
                if os.environ.get("VERIF_DEBUG"):
                    with open("/var/tmp/c18_debug.log", "a") as df:
                        df.write("=== port %s exit %r\n%s\n" % (srv.port, rc_, getattr(srv, "stderr", "")))
                rec["trail"] = (rec.get("trail") or "") + " connection failed: %r; server process ended (exit %r): %s" % (
                    exc, rc_, getattr(srv, "stderr", "")[-1500:])
            finally:
                srv.stop()
            if storage == "bare" and user and not user.get("converted"):
                # between two lifetimes of the server: the calendar holding the user's data
                # becomes a bare repository
                rel = urllib.parse.unquote(urllib.parse.urlsplit(user["event"]).path)
                rel = rel[len(prefix.rstrip("/")):] if prefix.rstrip("/") and rel.startswith(prefix.rstrip("/")) else rel
                cal_dir = os.path.join(directory, os.path.dirname(rel).lstrip("/"))
                if os.path.isdir(os.path.join(cal_dir, ".git")):
                    to_bare(cal_dir)
                    user["converted"] = True
            if storage == "moved" and user and not user.get("moved"):
                # between two lifetimes: the calendar holding the user's data moves to another
                # volume and is linked back under its old name
                rel = urllib.parse.unquote(urllib.parse.urlsplit(user["event"]).path)
                rel = rel[len(prefix.rstrip("/")):] if prefix.rstrip("/") and rel.startswith(prefix.rstrip("/")) else rel
                cal_dir = os.path.join(directory, os.path.dirname(rel).lstrip("/"))
                if os.path.isdir(cal_dir) and not os.path.islink(cal_dir):
                    elsewhere = os.path.join(base, "volume2")
                    os.makedirs(elsewhere, exist_ok=True)
                    dest = os.path.join(elsewhere, os.path.basename(cal_dir))
                    shutil.move(cal_dir, dest)
                    os.symlink(dest, cal_dir)
                    user["moved"] = True
            if not srv.up:
                rec["trail"] = getattr(srv, "stderr", "")[-300:]
            starts.append(rec)
        info["starts"] = starts
        return info
    finally:
        shutil.rmtree(base, ignore_errors=True)
