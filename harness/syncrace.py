"""C07 under overlap: a sync-collection REPORT running in one request thread while a write
(PUT / DELETE) commits in another, interleaved at every file-system step of the report.
The report must be an atomic snapshot: its change list and its token have to belong to
ONE state (the one before or the one after the write)."""
import threading
import urllib.parse

from . import compat  # noqa: F401
from . import alpha, gamma, sched
from .alpha import DAV
from .world import World

BASE = "/user/calendars/s/"


def state_of(w):
    """name -> etag, and the sync token, read sequentially."""
    r = w.request("PROPFIND", BASE, [("Depth", "1"), ("Content-Type", "text/xml")], gamma.PROPFIND_ALL)
    rs, _ = alpha.parse_multistatus(r.body)
    members, token = {}, ""
    b = urllib.parse.unquote(w.url(BASE))
    for x in rs:
        h = urllib.parse.unquote(x.href or "")
        if h.rstrip("/") == b.rstrip("/"):
            token = x.text(DAV + "sync-token") or ""
        else:
            members[h[len(b):]] = x.text(DAV + "getetag") or ""
    return members, token


def parse_sync(resp, w):
    out = {"ok": False, "changed": {}, "removed": [], "token": ""}
    if resp.status != 207:
        return out
    rs, token = alpha.parse_multistatus(resp.body)
    out["ok"] = True
    out["token"] = token or ""
    b = urllib.parse.unquote(w.url(BASE))
    for x in rs:
        n = urllib.parse.unquote(x.href or "")[len(b):]
        if x.status == 404:
            out["removed"].append(n)
        else:
            out["changed"][n] = x.text(DAV + "getetag") or ""
    out["removed"].sort()
    return out


def run_overlap(write, i, E):
    """write: ("put", name, body index) | ("delete", name).  The report (worker A) takes i gate
    steps, then the write (worker B) runs to completion, then the report finishes."""
    w = World(frontend="wsgi", prefix="/")
    try:
        assert w.request("MKCALENDAR", BASE).status in range(200, 300)
        for n, k in (("a.ics", 1), ("b.ics", 3)):
            assert w.request("PUT", BASE + n, [("Content-Type", "text/calendar")], gamma.model_body(k)[0]).status in range(200, 300)
        old, oldtok = state_of(w)                       # the client's replica
        assert w.request("PUT", BASE + "c.ics", [("Content-Type", "text/calendar")], gamma.model_body(7)[0]).status in range(200, 300)
        s0, t0 = state_of(w)
        path = w.fspath(BASE.rstrip("/"))

        def report():
            return w.request("REPORT", BASE, [("Content-Type", "text/xml")], gamma.sync_body(oldtok))

        def do_write():
            if write[0] == "put":
                return w.request("PUT", BASE + write[1], [("Content-Type", "text/calendar")],
                                 gamma.model_body(write[2])[0])
            return w.request("DELETE", BASE + write[1])

        sc = sched.Scheduler(path, 2)
        with sc:
            ta = sc.spawn("A", report)
            tb = None
            sc.step("A", i)
            tb = sc.spawn("B", do_write)
            sc.finish("B")
            sc.finish("A")
            if sc.stuck:
                sc.release_all()
            ta.join(10)
            tb.join(10)
        ra = sc.results.get("A")
        rb = sc.results.get("B")
        got = parse_sync(ra[1], w) if ra and ra[0] == "ok" else {"ok": False, "changed": {}, "removed": [], "token": ""}
        s1, t1 = state_of(w)

        def enc(m):
            return {n: E(e) for n, e in m.items()}
        return {"write": list(write), "i": i, "gates": len([1 for (x, g) in sc.trace if x == "A"]),
                "old": enc(old), "s0": enc(s0), "t0": E(t0), "s1": enc(s1), "t1": E(t1),
                "write_ok": bool(rb and rb[0] == "ok" and rb[1].status in range(200, 300)),
                "got": {"ok": got["ok"], "changed": enc(got["changed"]), "removed": got["removed"],
                        "token": E(got["token"]) if got["token"] else 0},
                "stuck": sc.stuck}
    finally:
        w.close()
