"""Running TLC / SANY and parsing what they print."""
import json
import os
import re
import shutil
import subprocess
import tempfile
import time

SPEC_DIR = os.path.join(os.path.dirname(os.path.dirname(os.path.abspath(__file__))), "spec")
SCRATCH_ROOT = os.environ.get("VERIF_SCRATCH", "/var/tmp")


class TLCError(Exception):
    pass


def run_tlc(module, cfg_text=None, cfg_file=None, env=None, workers=16, extra=(), timeout=3600,
            cwd=None, simulate=None, depth=None, seed=None, coverage=False):
    """Run TLC on spec/<module>.tla. Returns dict(out, states, distinct, seconds, rc)."""
    work = tempfile.mkdtemp(prefix="tlc-", dir=SCRATCH_ROOT)
    try:
        if cfg_text is not None:
            cfg_file = os.path.join(work, "run.cfg")
            with open(cfg_file, "w") as f:
                f.write(cfg_text)
        cmd = ["tlc", "-workers", str(workers), "-metadir", os.path.join(work, "meta"),
               "-noGenerateSpecTE", "-config", cfg_file]
        if simulate:
            cmd += ["-simulate", simulate]
        if depth:
            cmd += ["-depth", str(depth)]
        if seed is not None:
            cmd += ["-seed", str(seed)]
        if coverage:
            cmd += ["-coverage", "1"]
        cmd += list(extra)
        cmd.append(os.path.join(SPEC_DIR, module + ".tla"))
        e = dict(os.environ)
        if env:
            e.update(env)
        t0 = time.time()
        p = subprocess.run(cmd, cwd=cwd or SPEC_DIR, env=e, stdout=subprocess.PIPE,
                           stderr=subprocess.STDOUT, timeout=timeout)
        out = p.stdout.decode("utf-8", "replace")
        res = {"out": out, "rc": p.returncode, "seconds": time.time() - t0,
               "states": 0, "distinct": 0}
        m = re.search(r"(\d+) states generated, (\d+) distinct states found", out)
        if m:
            res["states"] = int(m.group(1))
            res["distinct"] = int(m.group(2))
        return res
    finally:
        shutil.rmtree(work, ignore_errors=True)


def ok(res):
    return res["rc"] == 0 and "Error:" not in res["out"]


def validate_traces(module, cfg_name, batch, constants=None, timeout=3600):
    """Write batch (dict) to a JSON file, run the trace spec, return (results, tlc_res)."""
    work = tempfile.mkdtemp(prefix="trace-", dir=SCRATCH_ROOT)
    try:
        tf = os.path.join(work, "traces.json")
        rf = os.path.join(work, "results.json")
        with open(tf, "w") as f:
            json.dump(batch, f)
        cfg = open(os.path.join(SPEC_DIR, cfg_name)).read()
        if constants:
            for k, v in constants.items():
                cfg = re.sub(r"(?m)^CONSTANT %s = .*$" % re.escape(k), "CONSTANT %s = %s" % (k, v), cfg)
        res = run_tlc(module, cfg_text=cfg, env={"TRACE_FILE": tf, "RESULT_FILE": rf},
                      workers=1, timeout=timeout)
        if not ok(res) or not os.path.exists(rf):
            raise TLCError("trace validation did not complete:\n" + res["out"][-4000:])
        with open(rf) as f:
            results = json.load(f)["results"]
        return results, res
    finally:
        shutil.rmtree(work, ignore_errors=True)


def tla_set(items):
    return "{" + ", ".join('"%s"' % i for i in sorted(items)) + "}"


# --------------------------------------------------------------------------
# TLA+ value parser (what TLC prints for states): records, functions (:> @@),
# sequences, sets, strings, integers, booleans.
# --------------------------------------------------------------------------
class _P:
    def __init__(self, s):
        self.s = s
        self.i = 0

    def ws(self):
        while self.i < len(self.s) and self.s[self.i] in " \t\r\n":
            self.i += 1

    def peek(self, k=1):
        self.ws()
        return self.s[self.i:self.i + k]

    def eat(self, tok):
        self.ws()
        if not self.s.startswith(tok, self.i):
            raise ValueError("expected %r at %d: %r" % (tok, self.i, self.s[self.i:self.i + 40]))
        self.i += len(tok)

    def value(self):
        self.ws()
        v = self.atom()
        # function constructors  a :> b @@ c :> d
        self.ws()
        if self.s.startswith(":>", self.i):
            d = {}
            k = v
            while True:
                self.eat(":>")
                d[_key(k)] = self.atom()
                self.ws()
                if self.s.startswith("@@", self.i):
                    self.i += 2
                    k = self.atom()
                else:
                    break
            return d
        return v

    def atom(self):
        self.ws()
        c = self.s[self.i]
        if c == '"':
            j = self.i + 1
            out = []
            while self.s[j] != '"':
                if self.s[j] == "\\":
                    j += 1
                out.append(self.s[j])
                j += 1
            self.i = j + 1
            return "".join(out)
        if c == "[":
            self.i += 1
            d = {}
            if self.peek() == "]":
                self.i += 1
                return d
            while True:
                self.ws()
                j = self.i
                while self.s[self.i] not in " |":
                    self.i += 1
                k = self.s[j:self.i]
                self.eat("|->")
                d[k] = self.value()
                self.ws()
                if self.s[self.i] == ",":
                    self.i += 1
                    continue
                self.eat("]")
                return d
        if c == "<" and self.s.startswith("<<", self.i):
            self.i += 2
            out = []
            if self.peek(2) == ">>":
                self.i += 2
                return out
            while True:
                out.append(self.value())
                self.ws()
                if self.s[self.i] == ",":
                    self.i += 1
                    continue
                self.eat(">>")
                return out
        if c == "{":
            self.i += 1
            out = []
            if self.peek() == "}":
                self.i += 1
                return out
            while True:
                out.append(self.value())
                self.ws()
                if self.s[self.i] == ",":
                    self.i += 1
                    continue
                self.eat("}")
                return out
        if c == "(":
            self.i += 1
            v = self.value()
            self.eat(")")
            return v
        m = re.compile(r"-?\d+|TRUE|FALSE|[A-Za-z_][A-Za-z0-9_]*").match(self.s, self.i)
        if not m:
            raise ValueError("cannot parse at %d: %r" % (self.i, self.s[self.i:self.i + 40]))
        self.i = m.end()
        t = m.group(0)
        if t == "TRUE":
            return True
        if t == "FALSE":
            return False
        if re.fullmatch(r"-?\d+", t):
            return int(t)
        return t


def _key(k):
    return k if isinstance(k, (str, int)) else json.dumps(k, sort_keys=True)


def parse_tla_value(text):
    p = _P(text)
    v = p.value()
    return v


def parse_state_vars(block):
    """'/\\ a = ...\\n/\\ b = ...' -> {a: value, b: value}"""
    out = {}
    parts = re.split(r"(?m)^/\\ ", block)
    for part in parts:
        part = part.strip()
        if not part:
            continue
        name, _, val = part.partition(" = ")
        out[name.strip()] = parse_tla_value(val)
    return out


def simulate_behaviours(module, cfg_file, num, depth, seed, timeout=600):
    """Run TLC in simulation mode writing one file per behaviour; return a list of
    behaviours, each a list of state dicts."""
    work = tempfile.mkdtemp(prefix="sim-", dir=SCRATCH_ROOT)
    try:
        res = run_tlc(module, cfg_file=os.path.join(SPEC_DIR, cfg_file), workers=1,
                      simulate="file=%s/tr,num=%d" % (work, num), depth=depth, seed=seed,
                      timeout=timeout)
        behs = []
        for fn in sorted(os.listdir(work)):
            if not fn.startswith("tr"):
                continue
            txt = open(os.path.join(work, fn)).read()
            states = []
            for m in re.finditer(r"(?ms)^STATE_\d+ ==\s*\n(.*?)(?=^\s*$|\Z)", txt):
                states.append(parse_state_vars(m.group(1)))
            if states:
                behs.append(states)
        return behs, res
    finally:
        shutil.rmtree(work, ignore_errors=True)
