"""C04: a crash during a write leaves the old or the new state.

 1. TLC checks the write protocols of StoreProto (level B) exhaustively: every
    reachable disk state is a crash image (Opens, CrashAtomic, Coherent).
 2. Every mutating file-system event of create / replace / no-op / delete /
    property-set on tree-git, bare-git and vdir stores with varying prior
    contents is turned into crash images (plus torn variants), re-opened by the
    real code, and judged by TLC against CrashTrace.tla.
 3. The recorded gate sequences are validated against StoreProto
    (StoreProtoTrace.tla); a mismatch is reported as model drift (NOTE).
"""
import json
import logging
import multiprocessing
import os
import random
import traceback
from concurrent.futures import ThreadPoolExecutor

from . import common, tlc, gamma


def scenarios(tier, seed):
    rng = random.Random(seed)
    b1 = gamma.ics_event("crash-uid-1", "one")
    b2 = gamma.ics_event("crash-uid-1", "two", dtstart="20200107T100000Z", dtend="20200107T120000Z")
    b3 = gamma.ics_event("crash-uid-2", "three")
    v1 = gamma.vcard("Ada Crash")
    priors = {
        "one": [{"t": "put", "n": "a.ics", "data": b1}],
        "two": [{"t": "put", "n": "a.ics", "data": b1}, {"t": "put", "n": "z.vcf", "data": v1}],
        "named": [{"t": "put", "n": "a.ics", "data": b1}, {"t": "prop", "p": "displayname", "v": "Old name"}],
        "rewritten": [{"t": "put", "n": "a.ics", "data": b2}, {"t": "put", "n": "a.ics", "data": b1},
                      {"t": "put", "n": "q.ics", "data": b3}, {"t": "del", "n": "q.ics"}],
    }
    ops = {
        "create": {"t": "put", "n": "b.ics", "data": b3},
        "replace": {"t": "put", "n": "a.ics", "data": b2},
        "noop": {"t": "put", "n": "a.ics", "data": b1},
        "delete": {"t": "del", "n": "a.ics"},
        "createvcf": {"t": "put", "n": "n.vcf", "data": gamma.vcard("New Card")},
        "prop-displayname": {"t": "prop", "p": "displayname", "v": "New name 100%"},
        "prop-description": {"t": "prop", "p": "description", "v": "A description"},
        "prop-color": {"t": "prop", "p": "color", "v": "#00FF00"},
        "prop-comment": {"t": "prop", "p": "comment", "v": "a comment"},
    }
    # the same operations arriving as HTTP requests (the Content-Type spelled in several ways)
    http_ops = {
        "http-create": {"t": "http", "method": "PUT", "n": "b.ics", "ct": "text/calendar", "data": b3, "as": "put"},
        "http-replace": {"t": "http", "method": "PUT", "n": "a.ics", "ct": "text/calendar; charset=utf-8", "data": b2, "as": "put"},
        "http-replace-ct": {"t": "http", "method": "PUT", "n": "a.ics", "ct": "TEXT/CALENDAR; charset=utf-8", "data": b2, "as": "put"},
        "http-replace-ct2": {"t": "http", "method": "PUT", "n": "a.ics", "ct": "text/calendar ;charset=utf-8", "data": b2, "as": "put"},
        "http-replace-noct": {"t": "http", "method": "PUT", "n": "a.ics", "ct": "", "data": b2, "as": "put"},
        "http-delete": {"t": "http", "method": "DELETE", "n": "a.ics", "as": "del"},
        "http-proppatch": {"t": "http", "method": "PROPPATCH", "p": "displayname", "v": "Set over HTTP", "as": "prop"},
    }
    out = []
    # a property goes back to the value it had when the process opened the collection (an
    # earlier request of the same process had changed it)
    for kind in ("tree", "bare", "vdir"):
        for (pname, v0, v1) in (("description", "alpha", "beta"),) + ((("comment", "first", "second"),) if kind != "vdir" else ()):
            described = [{"t": "put", "n": "a.ics", "data": b1}, {"t": "prop", "p": "description", "v": "alpha"}] + \
                ([{"t": "prop", "p": "comment", "v": "first"}] if kind != "vdir" else [])
            out.append({"kind": kind, "prior": "described", "prep": described,
                        "warm": [{"t": "prop", "p": pname, "v": v1}],
                        "opname": "prop-%s-back" % pname, "op": {"t": "prop", "p": pname, "v": v0},
                        "cfgbackend": False})
    prior_names = ["one"] if tier == "quick" else list(priors)
    for kind in ("tree", "bare", "vdir"):
        for pn in prior_names + (["named"] if tier == "quick" else []):
            for on, op in ops.items():
                if kind == "vdir" and on == "prop-comment":
                    continue
                out.append({"kind": kind, "prior": pn, "prep": priors[pn], "opname": on, "op": op,
                            "cfgbackend": False})
        if kind != "vdir":
            for on, op in http_ops.items():
                out.append({"kind": kind, "prior": "one", "prep": priors["one"], "opname": on, "op": op,
                            "cfgbackend": False})
            for on in ("prop-displayname", "prop-description", "prop-color", "prop-comment", "replace"):
                out.append({"kind": kind, "prior": "one", "prep": priors["one"], "opname": on,
                            "op": ops[on], "cfgbackend": True})
    return out


def _quiet():
    logging.disable(logging.CRITICAL)
    try:
        os.dup2(open(os.devnull, "w").fileno(), 2)
    except OSError:
        pass


def _work(sc):
    _quiet()
    from . import crashdriver as cd
    from .alpha import Interner
    try:
        C = Interner()
        r = cd.run_op_with_images(sc["kind"], sc["prep"], sc["op"], C, cfgbackend=sc["cfgbackend"],
                                  warm=sc.get("warm", ()), interrupts=sc.get("interrupts", 0),
                                  seed=sc.get("seed", 0), foreign_tmp=sc.get("foreign_tmp", False))
        op = sc["op"]
        rec = {"kind": sc["kind"] + ("-gitcfg" if sc["cfgbackend"] else ""), "t": op.get("as", op["t"]),
               "n": op.get("n") or op.get("p"), "prior": sc["prior"], "opname": sc["opname"],
               "expect": C(("prop", op["v"])) if op.get("as", op["t"]) == "prop" else 0,
               "pre": r["pre"], "final": r["final"], "oper_error": r["oper_error"],
               "images": [{"k": im["k"], "gate": im["gate"], "torn": im["torn"], "obs": im["obs"], "rerr": im.get("rerr", "")}
                          for im in r["images"]],
               "gates": r["gates"], "nevents": r["nevents"], "basekind": sc["kind"],
               "interrupt_points": r["interrupt_points"], "interrupt_lines": r["interrupt_lines"],
               "foreign_tmp": r["foreign_tmp"]}
        return {"ok": True, "rec": rec}
    except Exception:
        return {"ok": False, "error": traceback.format_exc(), "sc": {k: v for k, v in sc.items() if k not in ("prep", "op")}}


def model_check(kind):
    cfg = ("SPECIFICATION Spec\nCONSTANTS\n  Kind = \"%s\"\n  Proc = {\"A\"}\n  Mode = \"crash\"\n"
           "INVARIANT Opens\nINVARIANT CrashAtomic\nINVARIANT Coherent\nCHECK_DEADLOCK FALSE\n" % kind)
    res = tlc.run_tlc("StoreProtoMC", cfg_text=cfg, workers=16, timeout=1500)
    completed = "Model checking completed. No error has been found." in res["out"]
    violated = [inv for inv in ("Opens", "CrashAtomic", "Coherent")
                if ("Invariant %s is violated" % inv) in res["out"]]
    if not completed and not violated:
        common.machinery_failure("TLC on StoreProtoMC (crash, %s) failed:\n%s" % (kind, res["out"][-3000:]))
    return {"kind": kind, "design_crash_safe": completed, "violated": violated,
            "states": res["states"], "distinct": res["distinct"]}


CLS = {"create": "create", "replace": "replace", "noop": "noop", "delete": "delete"}


def conformance(recs):
    """Gate sequences of operations that correspond to a StoreProto program (prior = {a})."""
    seqs = []
    for r in recs:
        if r["prior"] != "one" or r["kind"].endswith("-gitcfg"):
            continue
        cls = CLS.get(r["opname"]) or ("cfg" if r["opname"].startswith("prop-") else None)
        if cls is None:
            continue
        seqs.append({"id": r["id"], "kind": r["basekind"], "cls": cls, "gates": r["gates"]})
    accepted = set()
    states = 0
    for kind in ("tree", "bare", "vdir"):
        ks = [s for s in seqs if s["kind"] == kind]
        if not ks:
            continue
        cfg = ("SPECIFICATION TraceSpec\nCONSTANT Kind = \"%s\"\nPOSTCONDITION Done\nCHECK_DEADLOCK FALSE\n" % kind)
        import tempfile, shutil
        work = tempfile.mkdtemp(prefix="conf-", dir=tlc.SCRATCH_ROOT)
        try:
            tf = os.path.join(work, "t.json")
            rf = os.path.join(work, "r.json")
            json.dump({"seqs": seqs}, open(tf, "w"))
            res = tlc.run_tlc("StoreProtoTrace", cfg_text=cfg, env={"TRACE_FILE": tf, "RESULT_FILE": rf},
                              workers=1, timeout=600)
            if not tlc.ok(res) or not os.path.exists(rf):
                common.machinery_failure("StoreProtoTrace failed:\n" + res["out"][-3000:])
            accepted |= set(json.load(open(rf))["accepted"])
            states += res["distinct"]
        finally:
            shutil.rmtree(work, ignore_errors=True)
    return seqs, accepted, states


def run(prop, tier, seed, replay=None):
    rep = common.Report(prop, tier, seed, "fault_enumeration")
    devs = common.open_devs("Crash")
    scs = scenarios(tier, seed)
    for i, sc in enumerate(scs):
        # death by a signal delivered as an exception, at sampled lines of the store / git code
        sc["interrupts"] = 40 if tier == "quick" else 400
        sc["seed"] = seed * 1000 + i
    # the same operations in a deployment whose temporary directory is on another file system
    # than the data (a rename from there is a copy)
    more = []
    for sc in scs:
        if sc["prior"] == "one" and not sc.get("warm") and not sc["cfgbackend"] and sc["op"]["t"] != "http":
            more.append(dict(sc, foreign_tmp=True, interrupts=0, prior="one", opname=sc["opname"] + "@tmpfs"))
    scs += more
    if replay:
        r = json.load(open(replay))
        scs = [s for s in scs if (s["kind"], s["prior"], s["opname"], s["cfgbackend"]) ==
               tuple(r["scenario"])]
        models = []
    else:
        models = [model_check(k) for k in ("tree", "bare", "vdir")]
    with multiprocessing.get_context("fork").Pool(15) as pool:
        outs = pool.map(_work, scs, chunksize=1)
    recs = []
    for o in outs:
        if not o["ok"]:
            common.machinery_failure("harness exception %r:\n%s" % (o.get("sc"), o["error"]))
        recs.append(o["rec"])
    for i, r in enumerate(recs):
        r["id"] = i + 1
    # restart under a non-UTF-8 locale (writer and reader are separate processes)
    from . import crashdriver as _cd
    locale_recs = []
    if not replay:
        with ThreadPoolExecutor(max_workers=5) as ex:
            locale_recs = list(ex.map(lambda kc: _cd.run_locale_scenario(kc[0], kc[1]),
                                      [("vdir", False), ("tree", False), ("bare", False), ("tree", True), ("bare", True)]))
    results, stat = tlc.validate_traces("CrashTrace", "CrashTrace.cfg", {"ops": recs, "locale": locale_recs},
                                        constants={"EnabledDevs": tlc.tla_set(devs)})
    byid = {r["id"]: r for r in recs}
    nimages = sum(len(r["images"]) for r in recs)
    distinct = set()
    for r in recs:
        for im in r["images"]:
            distinct.add((r["kind"], r["t"], im["gate"], bool(im["torn"]),
                          json.dumps(im["obs"]["vis"], sort_keys=True) == json.dumps(r["pre"]["vis"], sort_keys=True)))
    for v in sorted(results, key=lambda v: (v["id"], v["k"])):
        if v["id"] > 100000:
            lr = locale_recs[v["id"] - 100001]
            if v["kind"] == "known":
                rep.known_finding(v["dev"], devs.get(v["dev"], {}).get("what", v["dev"]))
            else:
                rep.violation("%s :: %s store written under encoding %s (answers %s), re-opened by a new process: %s %s" % (
                    v["dev"], lr["kind"], lr["encoding"], lr["res"], v["clause"], v["err"][:200]),
                    {"property": prop, "verdict": v, "record": lr})
            continue
        r = byid[v["id"]]
        desc = "%s %s(%s) prior=%s: crash before event %d (%s)%s -> %s %s" % (
            r["kind"], r["opname"], r["n"], r["prior"], v["k"], v["dev"].rsplit(":", 1)[-1],
            (" torn " + v["torn"]) if v["torn"] else "", v["clause"], v["err"][:160])
        if v["kind"] == "known":
            rep.known_finding(v["dev"], devs.get(v["dev"], {}).get("what", v["dev"]))
        else:
            rep.violation(v["dev"] + " :: " + desc,
                          {"property": prop, "verdict": v,
                           "scenario": [r["basekind"], r["prior"], r["opname"], r["kind"].endswith("-gitcfg")],
                           "record": {k: r[k] for k in r if k != "images"},
                           "image": [im for im in r["images"] if im["k"] == v["k"]]})
    cstates = 0
    if not replay:
        seqs, accepted, cstates = conformance(recs)
        for s in seqs:
            if s["id"] not in accepted:
                rep.note("model-drift: gate sequence of %s/%s is not a behaviour of StoreProto: %s"
                         % (s["kind"], s["cls"], " ".join(s["gates"])))
        rep.coverage["gate_sequences_conforming"] = "%d/%d" % (len([s for s in seqs if s["id"] in accepted]), len(seqs))
        for m in models:
            if not m["design_crash_safe"]:
                rep.note("model: StoreProto(%s) violates %s (design-level prediction; the verdict comes from the "
                         "crash images of the real code)" % (m["kind"], ",".join(m["violated"])))
    rep.coverage.update({
        "evaluations": nimages,
        "distinct_nontrivial": len(distinct),
        "rule": "one evaluation = one crash image (store directory just before a mutating file-system event, or a "
                "torn variant) re-opened and read completely by the real code; distinct = distinct (store kind, "
                "operation, gate, torn?, shows-old-state?)",
        "samples": [{"kind": r["kind"], "op": r["opname"], "prior": r["prior"], "gates": r["gates"],
                     "crash_points": r["nevents"], "images": len(r["images"])} for r in recs[:6]],
        "operations": len(recs),
        "crash_points": sum(r["nevents"] for r in recs),
        "interrupt_points": sum(r["interrupt_points"] for r in recs),
        "interrupt_lines_total": sum(r["interrupt_lines"] for r in recs),
        "locale_scenarios": [{"kind": r["kind"], "encoding": r["encoding"], "answers": r["res"]} for r in locale_recs],
        "operations_with_foreign_tmpdir": sum(1 for r in recs if r.get("foreign_tmp")),
        "model": models,
        "states": sum(m["distinct"] for m in models) + stat["distinct"] + cstates,
        "exhaustive": True,
    })
    rep.assumptions += [
        "file-system operations persist in program order (no fsync reordering); a file open for writing at the "
        "crash is sampled empty and half-written, not at every byte",
        "harness/compat.py library shims; git CLI (fsck --strict --cache) as auditor of reachability",
    ]
    return rep.finish()
