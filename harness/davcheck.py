"""Checks for the Dav cluster: C01 C02 C03 C06 C07 C08 C09 C14 C17 (+ listing part of C16).

 1. TLC checks the theorems of the property-level model DavMC exhaustively.
 2. spec -> code: TLC-simulated behaviours of DavMC are replayed on the real server.
 3. code -> spec: random histories over a richer alphabet are executed.
 4. every recorded execution is judged by TLC against DavTrace.tla.
"""
import json
import logging
import multiprocessing
import os
import random
import re
import sys
import time
import traceback
from concurrent.futures import ThreadPoolExecutor

from . import common, tlc

# (front end, route prefix, storage, principal) - some principal names begin with the letters
# of the route prefix they are served under
HTTP_CONFIGS = [
    ("wsgi", "/", "tree", "/user/"), ("aiohttp", "/dav/", "tree", "/dave/"), ("aiohttp", "/", "bare", "/user/"),
    ("wsgi", "/a/b/", "bare", "/ab/"), ("aiohttp", "/a/b/", "tree", "/b/"), ("wsgi", "/dav/", "treecfg", "/ada/"),
    ("aiohttp", "/", "barecfg", "/user/"), ("wsgi", "/", "bare", "/dave/"), ("aiohttp", "/", "tree", "/u/x/"),
    ("wsgi", "/dav/", "tree", "/vdad/"), ("aiohttp", "/dav/", "bare", "/user/"), ("wsgi", "/a/b/", "tree", "/user/"),
]

DAV_PROPS = ["C01", "C02", "C03", "C06", "C07", "C08", "C09", "C14", "C16", "C17"]


# ----------------------------------------------------------------------------
# workers (run in pool processes)
# ----------------------------------------------------------------------------
def _quiet():
    logging.disable(logging.CRITICAL)
    try:
        devnull = open(os.devnull, "w")
        os.dup2(devnull.fileno(), 2)
    except OSError:
        pass


def _work(job):
    _quiet()
    from . import davgen, davreplay, storedriver
    kind = job["kind"]
    try:
        if kind in ("random", "fault"):
            prof = davgen.profile(job["profile"])
            if kind == "fault":
                prof["fault"] = 0.3
                prof["lock"] = 0
            tr, conc = davgen.run_random_session(job["seed"], prof,
                                                 frontend=job["cfg"][0], prefix=job["cfg"][1],
                                                 backend=job["cfg"][2], audit_git=(kind != "fault"), principal=(list(job["cfg"]) + ["/user/"])[3])
        elif kind == "model":
            tr, conc = davreplay.replay_behaviour(job["behaviour"], job["seed"],
                                                  frontend=job["cfg"][0], prefix=job["cfg"][1],
                                                  backend=job["cfg"][2], principal=(list(job["cfg"]) + ["/user/"])[3])
        elif kind == "store":
            tr, conc = storedriver.run_store_session(job["seed"], job["store"], job["profile"])
        elif kind == "witness":
            tr, conc = davgen.run_witness_session(job["witness"], frontend=job["cfg"][0], prefix=job["cfg"][1],
                                                  backend=job["cfg"][2], principal=(list(job["cfg"]) + ["/user/"])[3],
                                                  audit_git=(job.get("dev") != "fault-enumeration" and not job.get("gitconf")),
                                                  gitconf=job.get("gitconf", ""), index_threshold=job.get("index_threshold"))
        else:
            raise ValueError(kind)
        tr["job"] = {k: v for k, v in job.items() if k not in ("behaviour", "witness")}
        if "witness" in job:
            tr["job"]["witness_json"] = json.dumps(job["witness"])     # (a string: it may hold nulls)
        if kind == "model":
            tr["job"]["rqs"] = [st["rq"] for st in job["behaviour"]
                                if st.get("rq", {}).get("op") not in (None, "Init")]
        return {"ok": True, "trace": tr, "concrete": conc}
    except Exception:
        return {"ok": False, "error": traceback.format_exc(), "job": {k: v for k, v in job.items() if k != "behaviour"}}


def merge_batch(traces):
    """Give the traces of one batch a common body table (ids are per session)."""
    bodies = []
    out = []
    for tr in traces:
        tr = json.loads(json.dumps(tr))
        off = len(bodies)
        bodies.extend(tr.pop("bodies"))

        def fix_audit(a):
            for c in a["colls"].values():
                for m in c["members"].values():
                    if m["b"]:
                        m["b"] += off

        fix_audit(tr["init"])
        for ev in tr["events"]:
            if ev.get("b"):
                ev["b"] += off
            fix_audit(ev["audit"])
        out.append(tr)
    return {"bodies": bodies, "traces": out}


def validate(traces, devs, batch_size=30, parallel=8):
    """-> {trace id: result}, TLC statistics."""
    batches = [traces[i:i + batch_size] for i in range(0, len(traces), batch_size)]
    const = {"EnabledDevs": tlc.tla_set(devs)}

    def one(b):
        return tlc.validate_traces("DavTrace", "DavTrace.cfg", merge_batch(b), constants=const)

    results = {}
    states = 0
    secs = 0.0
    with ThreadPoolExecutor(max_workers=parallel) as ex:
        for res, stat in ex.map(one, batches):
            for r in res:
                results[r["id"]] = r
            states += stat["distinct"]
            secs += stat["seconds"]
    return results, {"states": states, "seconds": secs}


# ----------------------------------------------------------------------------
def mc_exhaustive(tier):
    depth = 4 if tier == "quick" else 6
    cfg = open(os.path.join(tlc.SPEC_DIR, "DavMC.cfg")).read()
    cfg = re.sub(r"MaxHist = \d+", "MaxHist = %d" % depth, cfg)
    res = tlc.run_tlc("DavMC", cfg_text=cfg, workers=16, timeout=3000, coverage=False)
    if not tlc.ok(res) or "Model checking completed. No error has been found." not in res["out"]:
        common.machinery_failure("TLC on DavMC did not succeed:\n" + res["out"][-3000:])
    return {"mc_states_generated": res["states"], "mc_distinct_states": res["distinct"],
            "mc_depth": depth, "mc_seconds": round(res["seconds"], 1)}


def run(prop, tier, seed, replay=None):
    rep = common.Report(prop, tier, seed, "model_checking")
    devs = common.open_devs("Dav")
    rng = random.Random(seed * 7919 + sum(map(ord, prop)))
    quick = tier == "quick"

    if replay:
        return run_replay(prop, replay, rep, devs)

    mc = mc_exhaustive(tier)

    # ---- jobs ----------------------------------------------------------------
    jobs = []
    nconf = 4 if quick else len(HTTP_CONFIGS)
    per_conf = 10 if quick else 60
    tid = 0
    for ci in range(nconf):
        cfg = HTTP_CONFIGS[ci]
        for k in range(per_conf):
            tid += 1
            jobs.append({"kind": "random", "seed": rng.randrange(1 << 30), "profile": prop,
                         "cfg": cfg, "tid": tid})
    # directed sessions: flows that must be exercised whatever the random generator happens to draw
    BIG = "@bytes:9600"
    DIRECTED = {
        # an opaque file uploaded in several TCP segments / chunks through the aiohttp front end
        "upload-shapes": (HTTP_CONFIGS[1], [["mk", "cal1", "calendar"],
                                            ["put", "cal1", "notes.txt", BIG, {"segmented": True}],
                                            ["put", "cal1", "blob.bin", BIG, {"chunked": True}],
                                            ["put", "cal1", "a.ics", "@model:1", {"segmented": True}],
                                            ["put", "cal1", "notes.txt", "@bytes:700", {"segmented": True}],
                                            ["get", "cal1", "notes.txt"]]),
        # members of the same name in two collections, asked for in one multiget
        "same-names": (HTTP_CONFIGS[0], [["mk", "cal1", "calendar"], ["mk", "cal2", "calendar"],
                                         ["put", "cal1", "a.ics", "@model:1"], ["put", "cal2", "a.ics", "@model:3"],
                                         ["put", "cal1", "b.ics", "@model:7"],
                                         ["multiget", "cal1", [["live", "a.ics"], ["othercoll:cal2", "a.ics"], ["live", "b.ics"]]],
                                         ["multiget", "cal2", [["othercoll:cal1", "a.ics"], ["live", "a.ics"]]],
                                         # a long request (more hrefs than any internal batch size) with
                                         # the same href at both ends
                                         ["multiget", "cal1", [["live", "a.ics"]] + [["missing", "m%03d.ics" % k] for k in range(70)] +
                                          [["dup", "a.ics"], ["live", "b.ics"], ["dup", "m003.ics"]]],
                                         # several spellings of one member's path in one request
                                         ["multiget", "cal1", [["live", "a.ics"], ["dotpath", "a.ics"], ["dotpath", "b.ics"],
                                                               ["live", "b.ics"], ["dotpath", "zz.ics"], ["missing", "zz.ics"]]]]),
        # display names a client echoes back: the default one (last path segment), the current one,
        # a removed one - on both kinds of metadata storage
        "echoed-names": (HTTP_CONFIGS[0], [["mk", "cal1", "calendar"], ["mk", "ab1", "addressbook"],
                                           ["propupdate", "cal1", [["displayname", "calendar"]]],
                                           ["propupdate", "cal1", [["displayname", "Work"]]],
                                           ["propupdate", "cal1", [["displayname", "calendar"]]],
                                           ["propupdate", "cal1", [["displayname", "Work"]]],
                                           ["propupdate", "cal1", [["displayname", "Work"]]],
                                           ["propupdate", "cal1", [["displayname", None]]],
                                           ["propupdate", "ab1", [["displayname", "Friends"]]],
                                           ["propupdate", "ab1", [["displayname", "addressbook"]]],
                                           ["restart"],
                                           ["propupdate", "ab1", [["displayname", "contacts"]]],
                                           ["propupdate", "ab1", [["displayname", "addressbook"]]],
                                           ["propupdate", "ab1", [["displayname", None]]]]),
        # reads that transform what they return (expansion of recurring events), followed by a
        # client storing again what the server serves
        "expand-then-reupload": (HTTP_CONFIGS[0], [["mk", "cal1", "calendar"],
                                                   ["put", "cal1", "r.ics", "@recurring"], ["put", "cal1", "d.ics", "@recurring-tz"],
                                                   ["put", "cal1", "a.ics", "@model:1"],
                                                   ["reupload", "cal1", "r.ics"], ["expandquery", "cal1"],
                                                   ["reupload", "cal1", "r.ics"], ["get", "cal1", "r.ics"],
                                                   ["reupload", "cal1", "d.ics"], ["expandquery", "cal1"],
                                                   ["multiget", "cal1", [["live", "r.ics"], ["live", "d.ics"]]],
                                                   ["reupload", "cal1", "d.ics"], ["reupload", "cal1", "a.ics"], ["restart"],
                                                   ["reupload", "cal1", "r.ics"]]),
        # starts with --defaults (which create the default collections) around property changes
        # on those collections while they are still empty, and later when they hold members
        "defaults-restarts": (HTTP_CONFIGS[0], [["restart", {"defaults": True}],
                                                ["propupdate", "cal1", [["displayname", "Work: 100% [me] #1"]]],
                                                ["propupdate", "ab1", [["displayname", "Friends"], ["abdesc", "people I know"]]],
                                                ["propupdate", "cal1", [["calcolor", "#123456"], ["caldesc", "what I do"]]],
                                                ["restart", {"defaults": True}],
                                                ["put", "cal1", "a.ics", "@model:1"],
                                                ["restart", {"defaults": True}], ["restart"],
                                                ["propupdate", "ab1", [["displayname", None]]],
                                                ["restart", {"defaults": True}]]),
        # members created without a name (POST): the name is the server's choice, but never one
        # that belongs to another member
        "post-names": (HTTP_CONFIGS[0], [["mk", "cal1", "calendar"], ["put", "cal1", "a.ics", "@model:1"],
                                         ["post", "cal1", "@uid-is-a", "text/calendar"], ["get", "cal1", "a.ics"],
                                         ["post", "cal1", "@uid-is-a", "text/calendar"],
                                         ["post", "cal1", "@uid-is-path", "text/calendar"],
                                         ["post", "cal1", "@model:3", "text/calendar"], ["restart"], ["get", "cal1", "a.ics"]]),
        # conditional requests on a member whose name starts with a dot
        "dot-name-conditions": (HTTP_CONFIGS[2], [["put", "cal1", ".hidden.ics", "@model:1"],
                                                  ["put", "cal1", ".hidden.ics", "@model:2", {"inm": ["star"]}],
                                                  ["put", "cal1", ".hidden.ics", "@model:2", {"im": ["cur"]}],
                                                  ["get", "cal1", ".hidden.ics", {"inm": ["cur"]}],
                                                  ["delete", "cal1", ".hidden.ics", {"im": ["stale"]}],
                                                  ["delete", "cal1", ".hidden.ics", {"im": ["cur"]}],
                                                  ["put", "cal1", ".hidden.ics", "@model:1", {"im": ["star"]}]]),
        "dot-name-conditions-tree": (HTTP_CONFIGS[0], [["mk", "cal1", "calendar"], ["put", "cal1", ".hidden.ics", "@model:1"],
                                                       ["put", "cal1", ".hidden.ics", "@model:2", {"inm": ["star"]}],
                                                       ["put", "cal1", ".hidden.ics", "@model:2", {"im": ["cur"]}],
                                                       ["get", "cal1", ".hidden.ics", {"inm": ["cur"]}],
                                                       ["delete", "cal1", ".hidden.ics", {"im": ["stale"]}],
                                                       ["delete", "cal1", ".hidden.ics", {"im": ["cur"]}]]),
        # both conditional headers on one request, in every combination of satisfied / violated
        "both-conditions": (HTTP_CONFIGS[0], [["mk", "cal1", "calendar"], ["put", "cal1", "a.ics", "@model:1"]] + [
            ["put", "cal1", "a.ics", "@model:%d" % (2 if k % 2 else 1), {"im": im, "inm": inm}]
            for k, (im, inm) in enumerate([(["cur"], ["cur"]), (["star"], ["star"]), (["cur"], ["other"]), (["stale"], ["other"]),
                                            (["cur"], ["star"]), (["star"], ["cur"]), (["cur"], ["empty"]), (["empty"], ["other"]),
                                            (["other", "cur"], ["stale", "cur"]), (["cur"], ["garbage"])])] + [
            ["put", "cal1", "new%d.ics" % k, "@model:3", {"im": im, "inm": inm}]
            for k, (im, inm) in enumerate([(["star"], ["star"]), (["garbage"], ["star"]), (["empty"], ["star"])])] + [
            ["delete", "cal1", "a.ics", {"im": ["stale"]}], ["delete", "cal1", "a.ics", {"im": ["cur"]}]]),
        # bare repositories served by one long-lived process: a request that fails half-way (the
        # delete of an object whose change description cannot be made), histories that return to
        # an earlier tree (create, delete, create again with the UID that became free)
        "bare-returns": (HTTP_CONFIGS[7], [["put", "cal1", "keep.ics", "@model:1"],
                                           ["put", "cal1", "t.ics", "@twice-summary"],
                                           ["delete", "cal1", "t.ics"],
                                           ["get", "cal1", "t.ics"],
                                           ["put", "cal1", "other.ics", "@model:3"],
                                           ["put", "cal1", "y.ics", "@uid-u-1"],
                                           ["delete", "cal1", "y.ics"],
                                           ["put", "cal1", "z.ics", "@uid-u-2"],
                                           ["get", "cal1", "y.ics"],
                                           ["delete", "cal1", "z.ics"],
                                           ["put", "cal1", "y.ics", "@uid-u-2"],
                                           ["restart"],
                                           ["get", "cal1", "t.ics"],
                                           ["multiget", "cal1", [["live", "keep.ics"], ["live", "y.ics"], ["missing", "z.ics"]]]]),
    }
    # the same property update sent in every encoding / Content-Type spelling of the request body
    steps = [["mk", "cal1", "calendar"], ["mk", "ab1", "addressbook"]]
    for k, enc in enumerate(["latin1-both", "latin1-prolog", "utf8-param", "appxml", "utf16", None]):
        steps.append(["propupdate", "cal1", [["displayname", "Gr\u00fc\u00dfe \u00ff %d" % k]], {"enc": enc}])
        steps.append(["propupdate", "ab1", [["displayname", "caf\u00e9 %d" % k], ["comment", "\u00c3\u00a9 %d" % k]], {"enc": enc}])
    DIRECTED["request-encodings"] = (HTTP_CONFIGS[1], steps)
    # text that looks like an escape sequence, on the collections whose settings live in the
    # repository configuration (.git/config / config of a bare repository)
    for k, cfg in (("treecfg", HTTP_CONFIGS[5]), ("barecfg", HTTP_CONFIGS[6])):
        steps = []
        for v in ("100%25 cotton", "a%3Bb", "caf%C3%A9 menu", "rate=7%41 \u00fc", "back\\slash\\n", "tab\there", "\"quoted\""):
            steps.append(["propupdate", "cal1", [["displayname", v]]])
            steps.append(["propupdate", "ab1", [["comment", v], ["displayname", v + "!"]]])
        steps.append(["restart"])
        steps.append(["propupdate", "cal1", [["comment", "100%25"]]])
        DIRECTED["escape-like-values-" + k] = (cfg, steps)
    for name, (cfg, steps) in sorted(DIRECTED.items()):
        tid += 1
        jobs.append({"kind": "witness", "witness": steps, "cfg": cfg, "tid": tid, "dev": "directed:" + name})
    # UID look-ups answered from the query index (threshold 0), then a write with the UID a
    # non-event holds
    tid += 1
    jobs.append({"kind": "witness", "cfg": HTTP_CONFIGS[0], "tid": tid, "dev": "directed:uid-lookups", "index_threshold": 0,
                 "witness": [["mk", "cal1", "calendar"], ["put", "cal1", "t.ics", "@todo-uid-u"], ["put", "cal1", "a.ics", "@model:1"]] +
                            [["uidquery", "cal1", "special-uid-u"]] * 4 + [["uidquery", "cal1", "model-uid-1@example.com"]] * 2 +
                            [["put", "cal1", "e.ics", "@uid-u-1"], ["put", "cal1", "f.ics", "@model:2"],
                             ["delete", "cal1", "t.ics"], ["uidquery", "cal1", "special-uid-u"], ["put", "cal1", "e.ics", "@uid-u-1"]]})
    # one ordinary session in a deployment with line-ending conversion configured in git
    tid += 1
    jobs.append({"kind": "witness", "cfg": HTTP_CONFIGS[0], "tid": tid, "dev": "directed:autocrlf",
                 "gitconf": "[core]\n\tautocrlf = input",
                 "witness": [["mk", "cal1", "calendar"], ["mk", "ab1", "addressbook"], ["put", "cal1", "a.ics", "@model:1"],
                             ["put", "cal1", "a.ics", "@model:2"], ["put", "ab1", "c.vcf", "@model:5"], ["get", "cal1", "a.ics"],
                             ["multiget", "cal1", [["live", "a.ics"]]], ["reupload", "cal1", "a.ics"], ["delete", "cal1", "a.ics"],
                             ["put", "cal1", "b.ics", "@model:3"], ["restart"], ["get", "cal1", "b.ics"]]})
    # the witness history of every listed (open) finding of this cluster, re-run as recorded
    for d, e in sorted(devs.items()):
        if e.get("witness") and e.get("property") == prop:
            tid += 1
            jobs.append({"kind": "witness", "witness": e["witness"], "cfg": HTTP_CONFIGS[0], "tid": tid, "dev": d})
    # fault sequences: writes interrupted by an injected ENOSPC (served state only is judged)
    if prop in ("C01", "C02", "C08"):
        # systematically: an overwrite, a create and a delete with the fault at every one of their
        # file-system mutations, on a work-tree repository through both front ends
        for cfg in (HTTP_CONFIGS[0], HTTP_CONFIGS[1], HTTP_CONFIGS[7]):
            # (the third one: bare repositories, which exist before the server starts)
            steps = ([["mk", "cal1", "calendar"]] if cfg[2] == "tree" else []) + [["put", "cal1", "a.ics", "@model:1"]]
            for k in range(1, 19):
                steps.append(["put", "cal1", "a.ics", "@model:%d" % (2 if k % 2 else 1), {"fault": k}])
                steps.append(["put", "cal1", "n%d.ics" % k, "@model:3", {"fault": k}])
                steps.append(["delete", "cal1", "n%d.ics" % k, {"fault": (k % 9) + 1}])
            # the same with files that open but cannot be written (a full disk), property
            # rewrites included
            for k in range(1, 9):
                steps.append(["propupdate", "cal1", [["calcolor", "#00FF0%d" % k]], {"fault": -k}])
                steps.append(["propupdate", "cal1", [["displayname", "Name %d" % k]], {"fault": k}])
                steps.append(["put", "cal1", "a.ics", "@model:%d" % (2 if k % 2 else 1), {"fault": -k}])
                steps.append(["put", "cal1", "w%d.ics" % k, "@model:3", {"fault": -k}])
                steps.append(["delete", "cal1", "w%d.ics" % k, {"fault": -((k % 4) + 1)}])
            tid += 1
            jobs.append({"kind": "witness", "witness": steps, "cfg": cfg, "tid": tid, "dev": "fault-enumeration"})
        for k in range(10 if quick else 100):
            tid += 1
            jobs.append({"kind": "fault", "seed": rng.randrange(1 << 30), "profile": prop,
                         "cfg": HTTP_CONFIGS[k % 2 * 4], "tid": tid})
    # spec -> code: simulated behaviours of the model
    nsim = 24 if quick else 300
    behs, simres = tlc.simulate_behaviours("DavMC", "DavMC_sim.cfg", nsim, 22 if quick else 40,
                                           seed=seed + 1)
    for bi, beh in enumerate(behs):
        tid += 1
        jobs.append({"kind": "model", "seed": rng.randrange(1 << 30), "behaviour": beh,
                     "cfg": HTTP_CONFIGS[bi % (nconf)], "tid": tid})
    # store API level: vdir, memory, tree, bare
    for store, nstore in (("vdir", 50), ("mem", 50), ("tree", 14), ("bare", 14)):
        for k in range(nstore if quick else nstore * 10):
            tid += 1
            jobs.append({"kind": "store", "seed": rng.randrange(1 << 30), "store": store,
                         "profile": prop, "tid": tid})

    t0 = time.time()
    with multiprocessing.get_context("fork").Pool(15) as pool:
        outs = pool.map(_work, jobs, chunksize=1)
    exec_secs = time.time() - t0
    traces = []
    concrete = {}
    for job, o in zip(jobs, outs):
        if not o["ok"]:
            common.machinery_failure("harness exception in job %r:\n%s" % (o["job"], o["error"]))
        o["trace"]["id"] = job["tid"]
        traces.append(o["trace"])
        concrete[job["tid"]] = o["concrete"]

    results, vstat = validate(traces, devs)
    if set(results) != set(t["id"] for t in traces):
        common.machinery_failure("TLC did not report on every trace")

    summarize(prop, rep, traces, concrete, results, devs)
    if prop == "C06":
        uid_cache_conformance(rep, [t for t in traces if t["cfg"].get("frontend") == "store-api"])
    if prop == "C02":
        from . import racecheck
        racecheck.reader_overlap(rep, tier, seed)
    if prop == "C03":
        from . import racecheck
        racecheck.conditional_overlap(rep, tier, seed)
    if prop == "C07":
        sync_overlap(rep, tier)
    if prop == "C17":
        from . import readoverlap, reportrace
        readoverlap.check(rep, [n for n in reportrace.PAIRS if "multiget" in n] + ["abmultiget-data/abquery-etag"])
    nev = sum(len(t["events"]) for t in traces)
    rep.coverage.update(mc)
    rep.coverage.update({
        "states": mc["mc_distinct_states"] + vstat["states"],
        "transitions": mc["mc_states_generated"] + nev,
        "traces_validated_against_impl": len(traces),
        "trace_events": nev,
        "model_behaviours_replayed": len(behs),
        "configurations": sorted({"/".join(map(str, j["cfg"])) for j in jobs if "cfg" in j}
                                 | {"store:" + j["store"] for j in jobs if j["kind"] == "store"}),
        "exec_seconds": round(exec_secs, 1),
        "tlc_trace_seconds": round(vstat["seconds"], 1),
        "checker_cmd": "tlc DavMC.tla (exhaustive) ; tlc -simulate DavMC.tla ; tlc DavTrace.tla (trace validation)",
    })
    rep.assumptions += [
        "harness/compat.py restores dulwich Repo.do_commit and icalendar component_factory (library drift, DESIGN 1.2a)",
        "the independent content-line tokenizer in harness/alpha.py decides property-for-property equality of iCalendar bodies",
        "auditor uses the git CLI, not dulwich",
        "SHA-1 / MD5 collision resistance",
    ]
    return rep.finish()


def _sync_overlap_work(job):
    _quiet()
    from . import syncrace
    from .alpha import Interner
    try:
        E = Interner()
        out = []
        first = syncrace.run_overlap(job["write"], 0, E)
        out.append(first)
        n = first["gates"]
        for i in range(1, n + 1, job["stride"]):
            out.append(syncrace.run_overlap(job["write"], i, E))
        return {"ok": True, "recs": out}
    except Exception:
        return {"ok": False, "error": traceback.format_exc()}


def sync_overlap(rep, tier):
    """C07: sync-collection reports overlapped by a write at every file-system step of the report."""
    writes = [("put", "d.ics", 1), ("delete", "c.ics"), ("put", "c.ics", 2), ("delete", "a.ics")]
    jobs = [{"write": w, "stride": 1} for w in writes]
    with multiprocessing.get_context("fork").Pool(len(jobs)) as pool:
        outs = pool.map(_sync_overlap_work, jobs, chunksize=1)
    recs = []
    for o in outs:
        if not o["ok"]:
            common.machinery_failure("harness exception (sync overlap):\n" + o["error"])
        recs.extend(o["recs"])
    res, stat = tlc.validate_traces("SyncOverlapTrace", "SyncOverlapTrace.cfg", {"recs": recs})
    for v in res:
        r = recs[v["i"] - 1]
        if v["k"] == "viol":
            rep.violation("sync-collection overlapped by %s after %d steps of the report: %s got=%s" % (
                r["write"], r["i"], v["w"], json.dumps(r["got"])),
                {"property": rep.prop, "verdict": v, "record": r})
        else:
            rep.note("sync overlap: %s (%s after %d steps)" % (v["w"], r["write"], r["i"]))
    rep.coverage["sync_overlap_runs"] = len(recs)


def uid_cache_conformance(rep, traces):
    """C06, level B: model check UidCache.tla (fixed algorithm) and validate the real
    _uid_to_fname / _fname_to_uid maps of the store-API sessions against it."""
    cfg = ("SPECIFICATION Spec\nCONSTANT Fixed = TRUE\nINVARIANT UidUnique\nINVARIANT NoSpuriousRefusal\n"
           "CONSTRAINT Bound\nCHECK_DEADLOCK FALSE\n")
    res = tlc.run_tlc("UidCacheMC", cfg_text=cfg, workers=16, timeout=1200)
    if "Model checking completed. No error has been found." not in res["out"]:
        common.machinery_failure("TLC on UidCacheMC failed:\n" + res["out"][-3000:])
    rep.coverage["uidcache_model"] = {"states": res["states"], "distinct": res["distinct"], "depth": 7}
    if not traces:
        return
    out, stat = tlc.validate_traces("UidCacheTrace", "UidCacheTrace.cfg", merge_batch(traces))
    drift = 0
    for r in out:
        for d in r["drift"]:
            drift += 1
            rep.note("model-drift: UID maps of trace %s step %s differ from UidCache.tla: %s"
                     % (r["id"], d["i"], json.dumps(d)[:300]))
    rep.coverage["uidcache_conformance"] = {"traces": len(out), "drift_steps": drift}


def summarize(prop, rep, traces, concrete, results, devs):
    by_id = {t["id"]: t for t in traces}
    relevant_steps = 0
    nontrivial = set()
    samples = []
    for tidv, r in sorted(results.items()):
        tr = by_id[tidv]
        for v in sorted(r["v"], key=lambda v: (v["i"], v["w"])):
            ev = tr["events"][v["i"] - 1] if v["i"] >= 1 else {}
            evs = {k: ev[k] for k in ev if k != "audit"}
            if v["k"] == "viol":
                if v["p"] == prop:
                    rep.violation("%s at step %d of trace %s (%s): %s ; event=%s" % (
                        v["w"], v["i"], tidv, json.dumps(tr.get("job", {}).get("cfg", tr.get("job", {}).get("store"))),
                        v["d"][:500], json.dumps(evs)[:600]),
                        {"property": prop, "clause": v["w"], "detail": v["d"], "step": v["i"],
                         "job": tr.get("job"), "config": tr.get("cfg"),
                         "requests": concrete.get(tidv), "trace": tr})
                else:
                    rep.note("trace %s step %d violates %s (%s) - reported by that property's check"
                             % (tidv, v["i"], v["p"], v["w"]))
                    os.makedirs(os.path.join(common.OUT_DIR, "other"), exist_ok=True)
                    json.dump({"property": v["p"], "clause": v["w"], "detail": v["d"], "step": v["i"],
                               "job": tr.get("job"), "config": tr.get("cfg"),
                               "requests": concrete.get(tidv), "trace": tr},
                              open(os.path.join(common.OUT_DIR, "other", "%s-from-%s-%s-%s.json"
                                                % (v["p"], prop, tidv, v["i"])), "w"))
            elif v["k"] == "known":
                if v["p"] == prop:
                    f = devs.get(v["w"], {})
                    rep.known_finding(v["w"], f.get("what", v["w"]))
            elif v["k"] == "note":
                rep.note("trace %s step %d: %s %s" % (tidv, v["i"], v["w"], v["d"][:200]))
                os.makedirs(os.path.join(common.OUT_DIR, "other"), exist_ok=True)
                json.dump({"property": v["p"], "clause": v["w"], "detail": v["d"], "step": v["i"],
                           "job": tr.get("job"), "config": tr.get("cfg"),
                           "requests": concrete.get(tidv), "trace": tr},
                          open(os.path.join(common.OUT_DIR, "other", "note-%s-%s-%s.json" % (prop, tidv, v["i"])), "w"))
        # coverage accounting: distinct abstract steps (op, response class, why it matters)
        for ev in tr["events"]:
            sig = (ev["op"], ev["resp"]["cls"], ev.get("im", {}).get("present", False),
                   ev.get("inm", {}).get("present", False), tr["cfg"].get("backend"),
                   tr["cfg"].get("frontend"))
            if ev["op"] not in ("Restart", "Lock", "Unlock"):
                nontrivial.add(sig)
            relevant_steps += 1
    for tr in traces[:2]:
        samples.append({"cfg": tr["cfg"],
                        "events": [{k: e[k] for k in e if k != "audit"} for e in tr["events"][:12]]})
    rep.coverage["evaluations"] = relevant_steps
    rep.coverage["distinct_nontrivial"] = len(nontrivial)
    rep.coverage["rule"] = ("one evaluation = one executed request judged by DavTrace; distinct = distinct "
                            "(operation, response class, conditional headers present, backend, front end) "
                            "signatures among state-affecting or read requests")
    rep.coverage["samples"] = samples


def run_replay(prop, path, rep, devs):
    """Re-execute the concrete requests of a replay file and judge them again."""
    from . import davreplay
    with open(path) as f:
        r = json.load(f)
    job = r.get("job") or {}
    _quiet_keep = None
    out = _work_replay(job, r)
    if out is None:
        common.machinery_failure("replay file has no reproducible job")
    tr, conc = out
    tr["id"] = 1
    results, _ = validate([tr], devs)
    summarize(prop, rep, [tr], {1: conc}, results, devs)
    rep.coverage.update({"states": 1, "transitions": len(tr["events"]),
                         "traces_validated_against_impl": 1})
    return rep.finish()


def _work_replay(job, r):
    from . import davgen, davreplay, storedriver
    logging.disable(logging.CRITICAL)
    if job.get("kind") in ("random", "fault"):
        prof = davgen.profile(job["profile"])
        if job["kind"] == "fault":
            prof["fault"] = 0.3
            prof["lock"] = 0
        return davgen.run_random_session(job["seed"], prof, frontend=job["cfg"][0], prefix=job["cfg"][1],
                                         backend=job["cfg"][2], audit_git=(job["kind"] != "fault"),
                                         principal=(list(job["cfg"]) + ["/user/"])[3])
    if job.get("kind") == "store":
        return storedriver.run_store_session(job["seed"], job["store"], job["profile"])
    if job.get("kind") == "model":
        return davreplay.replay_rqs(job["rqs"], job["seed"], frontend=job["cfg"][0],
                                    prefix=job["cfg"][1], backend=job["cfg"][2],
                                    principal=(list(job["cfg"]) + ["/user/"])[3])
    if job.get("kind") == "witness":
        steps = job.get("witness") or json.loads(job["witness_json"])
        return davgen.run_witness_session(steps, frontend=job["cfg"][0], prefix=job["cfg"][1],
                                          backend=job["cfg"][2], principal=(list(job["cfg"]) + ["/user/"])[3],
                                          audit_git=(job.get("dev") != "fault-enumeration" and not job.get("gitconf")),
                                          gitconf=job.get("gitconf", ""), index_threshold=job.get("index_threshold"))
    return None
