"""C10 driver: histories of queries and writes against a real store (Store API and
HTTP REPORT), with the observable index-manager state and a history-free oracle."""
import os
import random
import shutil
import urllib.parse
import xml.etree.ElementTree as ET

from . import compat  # noqa: F401
from . import alpha, gamma
from .world import World, mkscratch

from xandikos import caldav  # noqa: E402
from xandikos.icalendar import CalendarFilter, ICalendarFile  # noqa: E402
from xandikos.vcard import VCardFile  # noqa: E402
from xandikos.store.git import TreeGitStore, BareGitStore, GitStore  # noqa: E402
from xandikos.store.vdir import VdirStore  # noqa: E402
import datetime  # noqa: E402

NS = 'xmlns:C="urn:ietf:params:xml:ns:caldav" xmlns:D="DAV:"'


def flt(inner):
    return ('<C:filter %s><C:comp-filter name="VCALENDAR">%s</C:comp-filter></C:filter>' % (NS, inner))


def tr(start, end):
    return '<C:time-range start="%s" end="%s"/>' % (start, end)


# concrete filters: name -> (xml, class)
FILTERS = {
    # the four filters of IndexMgrMC (spec -> code)
    "fA": flt('<C:comp-filter name="VEVENT"><C:prop-filter name="SUMMARY"/></C:comp-filter>'),
    "hasRrule": flt('<C:comp-filter name="VEVENT"><C:prop-filter name="RRULE"/></C:comp-filter>'),
    "noRrule": flt('<C:comp-filter name="VEVENT"><C:prop-filter name="RRULE"><C:is-not-defined/></C:prop-filter>'
                   '</C:comp-filter>'),
    "sumEsc": flt('<C:comp-filter name="VEVENT"><C:prop-filter name="SUMMARY"><C:text-match collation="i;octet">'
                  'Budget, Q3; final\nnotes</C:text-match></C:prop-filter></C:comp-filter>'),
    "locEsc": flt('<C:comp-filter name="VEVENT"><C:prop-filter name="LOCATION"><C:text-match>room, 2nd FLOOR'
                  '</C:text-match></C:prop-filter></C:comp-filter>'),
    "noSum": flt('<C:comp-filter name="VEVENT"><C:prop-filter name="SUMMARY"><C:is-not-defined/></C:prop-filter>'
                 '</C:comp-filter>'),
    # a component type asked for at a level where the objects do not have it (they have it deeper)
    "calAlarm": flt('<C:comp-filter name="VALARM"/>'),
    "calNoAlarm": flt('<C:comp-filter name="VALARM"><C:is-not-defined/></C:comp-filter>'),
    "calStandard": flt('<C:comp-filter name="STANDARD"/>'),
    "evAlarm": flt('<C:comp-filter name="VEVENT"><C:comp-filter name="VALARM"/></C:comp-filter>'),
    "evNoAlarm": flt('<C:comp-filter name="VEVENT"><C:comp-filter name="VALARM"><C:is-not-defined/>'
                     '</C:comp-filter></C:comp-filter>'),
    "evAlarmAction": flt('<C:comp-filter name="VEVENT"><C:comp-filter name="VALARM"><C:prop-filter name="ACTION">'
                         '<C:text-match>AUDIO</C:text-match></C:prop-filter></C:comp-filter></C:comp-filter>'),
    "fB": flt('<C:comp-filter name="VEVENT"><C:prop-filter name="SUMMARY"/>'
              '<C:prop-filter name="LOCATION"><C:text-match>1</C:text-match></C:prop-filter></C:comp-filter>'),
    "fC": flt('<C:comp-filter name="VEVENT"><C:prop-filter name="DESCRIPTION"><C:is-not-defined/>'
              '</C:prop-filter></C:comp-filter>'),
    "fD": flt('<C:comp-filter name="VEVENT"><C:prop-filter name="LOCATION"><C:text-match>2</C:text-match>'
              '</C:prop-filter></C:comp-filter>'),
    # richer ones (code -> spec)
    "tJan": flt('<C:comp-filter name="VEVENT">%s</C:comp-filter>' % tr("20200101T000000Z", "20200201T000000Z")),
    "tFeb": flt('<C:comp-filter name="VEVENT">%s</C:comp-filter>' % tr("20200201T000000Z", "20200301T000000Z")),
    "tJanSum": flt('<C:comp-filter name="VEVENT">%s<C:prop-filter name="SUMMARY"><C:text-match>Alpha</C:text-match>'
                   '</C:prop-filter></C:comp-filter>' % tr("20200101T000000Z", "20200201T000000Z")),
    "todo": flt('<C:comp-filter name="VTODO"/>'),
    "todoJan": flt('<C:comp-filter name="VTODO">%s</C:comp-filter>' % tr("20200101T000000Z", "20200201T000000Z")),
    "journal": flt('<C:comp-filter name="VJOURNAL">%s</C:comp-filter>' % tr("20200101T000000Z", "20200201T000000Z")),
    "ptr": flt('<C:comp-filter name="VEVENT"><C:prop-filter name="DTSTART">%s</C:prop-filter></C:comp-filter>'
               % tr("20200110T000000Z", "20200120T000000Z")),
    "noLoc": flt('<C:comp-filter name="VEVENT"><C:prop-filter name="LOCATION"><C:is-not-defined/>'
                 '</C:prop-filter></C:comp-filter>'),
    "noTodo": flt('<C:comp-filter name="VTODO"><C:is-not-defined/></C:comp-filter>'),
    "all": flt(''),
    "partstat": flt('<C:comp-filter name="VEVENT"><C:prop-filter name="ATTENDEE"><C:param-filter name="PARTSTAT">'
                    '<C:text-match>ACCEPTED</C:text-match></C:param-filter></C:prop-filter></C:comp-filter>'),
    # negated text matches (several components of one type give the index several values)
    "notAlpha": flt('<C:comp-filter name="VEVENT"><C:prop-filter name="SUMMARY"><C:text-match negate-condition="yes">Alpha'
                    '</C:text-match></C:prop-filter></C:comp-filter>'),
    "notLoc1": flt('<C:comp-filter name="VEVENT"><C:prop-filter name="LOCATION"><C:text-match negate-condition="yes">1'
                   '</C:text-match></C:prop-filter></C:comp-filter>'),
    "sumMoved": flt('<C:comp-filter name="VEVENT"><C:prop-filter name="SUMMARY"><C:text-match>Alpha moved'
                    '</C:text-match></C:prop-filter></C:comp-filter>'),
    "hasAtt": flt('<C:comp-filter name="VEVENT"><C:prop-filter name="ATTENDEE"/></C:comp-filter>'),
    "catTwo": flt('<C:comp-filter name="VEVENT"><C:prop-filter name="CATEGORIES"><C:text-match>two</C:text-match>'
                  '</C:prop-filter></C:comp-filter>'),
    "declined": flt('<C:comp-filter name="VEVENT"><C:prop-filter name="ATTENDEE"><C:param-filter name="PARTSTAT">'
                    '<C:text-match>DECLINED</C:text-match></C:param-filter></C:prop-filter></C:comp-filter>'),
    "noCompleted": flt('<C:comp-filter name="VTODO"><C:prop-filter name="COMPLETED"><C:is-not-defined/>'
                       '</C:prop-filter></C:comp-filter>'),
    # presence / absence of properties whose value may be empty or zero
    "hasLoc": flt('<C:comp-filter name="VEVENT"><C:prop-filter name="LOCATION"/></C:comp-filter>'),
    "hasPrio": flt('<C:comp-filter name="VEVENT"><C:prop-filter name="PRIORITY"/></C:comp-filter>'),
    "noSeq": flt('<C:comp-filter name="VEVENT"><C:prop-filter name="SEQUENCE"><C:is-not-defined/>'
                 '</C:prop-filter></C:comp-filter>'),
    "noPartstat": flt('<C:comp-filter name="VEVENT"><C:prop-filter name="ATTENDEE"><C:param-filter name="PARTSTAT">'
                      '<C:is-not-defined/></C:param-filter></C:prop-filter></C:comp-filter>'),
}


def ev(uid, summary=None, location=None, description=None, dtstart="20200115T100000Z",
       dtend="20200115T110000Z", extra=(), comp="VEVENT"):
    props = ["UID:%s" % uid, "DTSTAMP:20200101T000000Z"]
    if dtstart:
        props.append("DTSTART%s" % (dtstart if dtstart.startswith((";", ":")) else ":" + dtstart))
    if dtend and comp == "VEVENT":
        props.append("DTEND%s" % (dtend if dtend.startswith((";", ":")) else ":" + dtend))
    if summary is not None:
        props.append("SUMMARY:%s" % summary)
    if location is not None:
        props.append("LOCATION:%s" % location)
    if description is not None:
        props.append("DESCRIPTION:%s" % description)
    props.extend(extra)
    return ["BEGIN:%s" % comp] + props + ["END:%s" % comp]


def cal(*comps):
    lines = ["BEGIN:VCALENDAR", "VERSION:2.0", "PRODID:-//verif//idx//EN"]
    for c in comps:
        lines.extend(c)
    lines.append("END:VCALENDAR")
    return ("\r\n".join(lines) + "\r\n").encode("utf-8")


TZ_BERLIN = ["BEGIN:VTIMEZONE", "TZID:Europe/Berlin", "BEGIN:STANDARD", "DTSTART:19701025T030000",
             "TZOFFSETFROM:+0200", "TZOFFSETTO:+0100", "END:STANDARD", "END:VTIMEZONE"]

# bodies: name -> (bytes, class)   class: plain | multi | tzid | date | unparseable
BODIES = {
    # the IndexMgrMC alphabet
    "m1": (lambda U: cal(ev(U, "1", "1")), "plain"),
    "m2": (lambda U: cal(ev(U, "1", "2", "3")), "plain"),
    "m3": (lambda U: cal(ev(U)), "plain"),
    "m4": (lambda U: cal(ev(U, "2", "1"), ev(U, "2", "2", extra=("RECURRENCE-ID:20200115T100000Z",))), "multi"),
    # richer
    "jan": (lambda U: cal(ev(U, "Alpha")), "plain"),
    "feb": (lambda U: cal(ev(U, "Alpha", dtstart="20200215T100000Z", dtend="20200215T110000Z")), "plain"),
    "janB": (lambda U: cal(ev(U, "Beta", "Room")), "plain"),
    "edge": (lambda U: cal(ev(U, "Alpha", dtstart="20200131T230000Z", dtend="20200201T010000Z")), "plain"),
    "allday": (lambda U: cal(ev(U, "Alpha", dtstart=";VALUE=DATE:20200120", dtend=";VALUE=DATE:20200121")), "date"),
    "dur": (lambda U: cal(ev(U, "Gamma", dtend=None, extra=("DURATION:PT2H",))), "plain"),
    "todo": (lambda U: cal(ev(U, "Task", comp="VTODO", dtstart="20200110T100000Z", dtend=None,
                    extra=("DUE:20200112T100000Z",))), "plain"),
    "todoDone": (lambda U: cal(ev(U, "Task done", comp="VTODO", dtstart="20200108T100000Z", dtend=None,
                        extra=("DUE:20200109T100000Z", "COMPLETED:20200109T090000Z", "CREATED:20200101T000000Z"))), "plain"),
    "todoN": (lambda U: cal(ev(U, "Task no dates", comp="VTODO", dtstart=None, dtend=None)), "plain"),
    "jour": (lambda U: cal(ev(U, "Note", comp="VJOURNAL", dtstart="20200105T100000Z", dtend=None)), "plain"),
    "override": (lambda U: cal(ev(U, "Alpha", dtstart="20200310T100000Z", dtend="20200310T110000Z",
                        extra=("RRULE:FREQ=MONTHLY;COUNT=3",)),
                     ev(U, "Alpha moved", dtstart="20200120T100000Z", dtend="20200120T110000Z",
                        extra=("RECURRENCE-ID:20200410T100000Z",))), "multi"),
    "att": (lambda U: cal(ev(U, "Alpha", extra=("ATTENDEE;PARTSTAT=ACCEPTED:mailto:a@example.com",))), "plain"),
    "attMix": (lambda U: cal(ev(U, "Alpha", extra=("ATTENDEE;PARTSTAT=ACCEPTED:mailto:a@example.com",)),
                             ev(U, "Alpha two", dtstart="20200122T100000Z", dtend="20200122T110000Z",
                                extra=("RECURRENCE-ID:20200122T100000Z", "ATTENDEE:mailto:b@example.com"))), "multi"),
    # a property occurring twice in one component
    "att2": (lambda U: cal(ev(U, "Alpha", extra=("ATTENDEE;PARTSTAT=ACCEPTED:mailto:a@example.com",
                                                  "ATTENDEE;PARTSTAT=DECLINED:mailto:b@example.com"))), "repeated"),
    "cat2": (lambda U: cal(ev(U, "Alpha", extra=("CATEGORIES:one", "CATEGORIES:two,three"))), "repeated"),
    "attN": (lambda U: cal(ev(U, "Alpha", extra=("ATTENDEE:mailto:b@example.com",))), "plain"),
    "tz": (lambda U: cal(TZ_BERLIN, ev(U, "Alpha", dtstart=";TZID=Europe/Berlin:20200201T003000",
                             dtend=";TZID=Europe/Berlin:20200201T013000")), "tzid"),
    "empty": (lambda U: cal(ev(U, "Alpha", "", "")), "plain"),                      # LOCATION: and DESCRIPTION: empty
    "zero": (lambda U: cal(ev(U, "", extra=("PRIORITY:0", "SEQUENCE:0", "PERCENT-COMPLETE:0"))), "plain"),
    "bad": (lambda U: b"BEGIN:VCALENDAR\r\nthis is not a calendar\r\n", "unparseable"),
    # text with characters that are escaped in the stored form; two events of which one lacks SUMMARY
    "esc": (lambda U: cal(ev(U, "Budget\\, Q3\\; final\\nnotes", "Room\\, 2nd floor")), "plain"),
    "sumMix": (lambda U: cal(ev(U, "Alpha"), ev(U, None, dtstart="20200122T100000Z", dtend="20200122T110000Z",
                                              extra=("RECURRENCE-ID:20200122T100000Z",))), "multi"),
    # components nested two levels deep: an alarm inside the event, STANDARD inside VTIMEZONE
    # floating local times around the end of January (which side of the boundary they fall on
    # depends on the zone of the query)
    "float": (lambda U: cal(ev(U, "Floating", dtstart="20200131T233000", dtend="20200201T003000")), "plain"),
    "floatIn": (lambda U: cal(ev(U, "Floating inside", dtstart="20200115T120000", dtend="20200115T130000")), "plain"),
    "weekly": (lambda U: cal(ev(U, "Weekly", dtstart="20200106T100000Z", dtend="20200106T110000Z",
                               extra=("RRULE:FREQ=WEEKLY;COUNT=4",))), "plain"),
    "alarm": (lambda U: cal(ev(U, "Alpha", extra=("BEGIN:VALARM", "ACTION:DISPLAY", "DESCRIPTION:ring",
                                                   "TRIGGER:-PT15M", "END:VALARM"))), "plain"),
    "alarmTz": (lambda U: cal(TZ_BERLIN, ev(U, "Beta", "Room", extra=("BEGIN:VALARM", "ACTION:AUDIO",
                                                                      "TRIGGER:-PT5M", "END:VALARM"))), "plain"),
}


class IndexSession:
    """A collection reachable both through the Store API and HTTP, with a configurable
    index threshold."""

    def __init__(self, level, threshold, storekind="tree"):
        self.level = level            # "store" | "http"
        self.threshold = threshold
        self.storekind = storekind
        self.events = []
        self.classes = {}
        self.refused = []
        self.errtypes = set()
        self.I = alpha.Interner()
        if level == "http":
            self.world = World(frontend="wsgi", prefix="/", index_threshold=threshold)
            r = self.world.request("MKCALENDAR", "/user/calendars/q/")
            assert r.status in range(200, 300), r
            self.path = self.world.fspath("/user/calendars/q")
        else:
            self.base = mkscratch("xi-")
            self.path = os.path.join(self.base, "store")
            if storekind == "vdir":
                self.store = VdirStore.create(self.path)
                # VdirStore takes no threshold argument: set it on the manager
                if threshold is not None:
                    self.store.index_manager.indexing_threshold = threshold
            elif storekind == "mem":
                self.store = BareGitStore.create_memory()
                if threshold is not None:
                    self.store.index_manager.indexing_threshold = threshold
            else:
                cls = TreeGitStore if storekind == "tree" else BareGitStore
                cls.create(self.path)
                self.store = GitStore.open_from_path(self.path, index_threshold=threshold)
            self.store.load_extra_file_handler(ICalendarFile)
            self.store.load_extra_file_handler(VCardFile)

    def close(self):
        if self.level == "http":
            self.world.close()
        else:
            shutil.rmtree(self.base, ignore_errors=True)

    def _store(self):
        if self.level == "http":
            r = self.world.backend.get_resource("/user/calendars/q")
            return r.store
        return self.store

    # -- operations -------------------------------------------------------------
    def put(self, name, bodyname):
        mk, cls = BODIES[bodyname]
        n = name + ".ics"
        data = mk("%s-%s@idx" % (bodyname, name))
        if cls == "unparseable":
            # cannot be uploaded as a calendar: stored as an opaque file under an .ics name
            self._store().import_one(n, "application/octet-stream", [data])
        elif self.level == "http":
            r = self.world.request("PUT", "/user/calendars/q/" + n, [("Content-Type", "text/calendar")], data)
            if r.status not in range(200, 300):
                self.refused.append((bodyname, r.status))
                return
        else:
            try:
                self.store.import_one(n, "text/calendar", [data])
            except Exception as exc:
                self.refused.append((bodyname, type(exc).__name__))
                return
        self.classes[n] = cls
        self._rec({"op": "Put", "n": n, "body": bodyname, "cls": cls})

    def delete(self, name):
        n = name + ".ics"
        st = self._store()
        try:
            st.delete_one(n)
        except Exception:
            return
        self.classes.pop(n, None)
        self._rec({"op": "Delete", "n": n})

    def expand(self):
        """A client asks for the expanded form of every event (a read; HTTP level only - the
        expansion is done by the report code, not by the store)."""
        if self.level != "http":
            return
        body = ('<?xml version="1.0"?><C:calendar-query %s><D:prop><D:getetag/><C:calendar-data>'
                '<C:expand start="20200101T000000Z" end="20210101T000000Z"/></C:calendar-data></D:prop>'
                '<C:filter><C:comp-filter name="VCALENDAR"><C:comp-filter name="VEVENT"/></C:comp-filter></C:filter>'
                '</C:calendar-query>' % NS).encode("utf-8")
        self.world.request("REPORT", "/user/calendars/q/", [("Content-Type", "text/xml"), ("Depth", "1")], body)

    def _filter(self, xml):
        el = ET.fromstring(xml)
        zone = getattr(self, "_zone", "")
        if zone:
            from zoneinfo import ZoneInfo
            return caldav.parse_filter(el, CalendarFilter(ZoneInfo(zone)))
        return caldav.parse_filter(el, CalendarFilter(datetime.timezone.utc))

    def query(self, fname):
        # "name@Zone": the same filter evaluated with that time zone as the query's zone (the
        # CALDAV:timezone element of the request): floating and all-day values depend on it
        fname, _, zone = fname.partition("@")
        xml = FILTERS[fname]
        self._zone = zone
        st = self._store()
        err = ""
        got = None
        if self.level == "http":
            tzel = ""
            if zone:
                from xml.sax.saxutils import escape
                from .calcases import VTZ
                tzel = "<C:timezone>%s</C:timezone>" % escape("\r\n".join(
                    ["BEGIN:VCALENDAR", "VERSION:2.0", "PRODID:-//verif//tz//EN"] + VTZ[zone] + ["END:VCALENDAR", ""]))
            body = ('<?xml version="1.0"?><C:calendar-query %s><D:prop><D:getetag/></D:prop>%s%s'
                    '</C:calendar-query>' % (NS, xml, tzel)).encode("utf-8")
            r = self.world.request("REPORT", "/user/calendars/q/",
                                   [("Content-Type", "text/xml"), ("Depth", "1")], body)
            if r.status == 207:
                rs, _ = alpha.parse_multistatus(r.body)
                got = sorted(urllib.parse.unquote(x.href).rsplit("/", 1)[-1] for x in rs)
            else:
                err = "error"
        else:
            try:
                got = sorted(n for (n, f, e) in st.iter_with_filter(self._filter(xml)))
            except Exception as exc:
                err = "error"
                self.errtypes.add(type(exc).__name__)
        # history-free oracle: the filter evaluated on every current member by a store object
        # that has never answered a query (naive path)
        want, werr = self._oracle(xml)
        keys = []
        try:
            for kl in self._filter(xml).index_keys():
                keys.extend(kl)
        except Exception:
            pass
        mgr = st.index_manager
        self._rec({"op": "Query", "f": fname, "zone": zone, "keys": sorted(set(keys)),
                   "got": got if got is not None else [], "goterr": err,
                   "want": want if want is not None else [], "wanterr": werr,
                   "avail": sorted(st.index.available_keys()),
                   "desired": {k: v for k, v in sorted(mgr.desired.items())},
                   "inindex": len(st.index._in_index)})

    def _oracle(self, xml):
        try:
            if self.storekind == "mem" and self.level == "store":
                fresh = self.store
                it = fresh._iter_with_filter_naive(self._filter(xml))
            else:
                if self.storekind == "vdir" and self.level == "store":
                    fresh = VdirStore.open_from_path(self.path)
                else:
                    fresh = GitStore.open_from_path(self.path)
                fresh.load_extra_file_handler(ICalendarFile)
                fresh.load_extra_file_handler(VCardFile)
                it = fresh._iter_with_filter_naive(self._filter(xml))
            return sorted(n for (n, f, e) in it), ""
        except Exception as exc:
            self.errtypes.add("oracle:" + type(exc).__name__)
            return None, "error"

    def _rec(self, ev):
        ev["classes"] = dict(self.classes)
        self.events.append(ev)

    def trace(self, tid):
        return {"id": tid, "level": self.level, "threshold": -1 if self.threshold is None else self.threshold,
                "store": self.storekind, "events": self.events,
                "refused": sorted(set("%s:%s" % x for x in self.refused))}


def run_model_behaviour(states, level, threshold, seed):
    """spec -> code: replay a behaviour of IndexMgrMC."""
    s = IndexSession(level, threshold)
    try:
        prev = None
        for st in states:
            cur = st["store"]
            last = st["last"]
            if prev is not None:
                for n in cur:
                    if cur[n] != prev[n]:
                        if cur[n] == 0:
                            s.delete(n)
                        else:
                            s.put(n, "m%d" % cur[n])
                if last.get("path") in ("naive", "index"):
                    s.query(last["f"])
            prev = cur
        return s.trace(seed)
    finally:
        s.close()


def random_ops(seed, length=40):
    rng = random.Random(seed)
    names = ["a", "b", "c", "d"]
    fl = list(FILTERS)
    # focus filters: repeated often so that thresholds are crossed.  Half of the histories focus
    # on a family of filters that share index keys (so that one filter's use of the index can
    # disturb what another one reads from it)
    FAMILIES = [(["partstat", "noPartstat", "declined", "hasAtt"], ["att", "attN", "attMix", "att2", "jan"]),
                (["fA", "fB", "fC", "fD", "notAlpha", "sumMoved"], ["m1", "m2", "m3", "m4", "override", "empty"]),
                (["tJan", "tFeb", "tJanSum", "ptr"], ["jan", "feb", "edge", "allday", "dur", "override", "tz"]),
                (["hasLoc", "noLoc", "notLoc1", "fD"], ["m1", "m2", "m4", "empty", "janB", "jan"]),
                (["hasPrio", "noSeq", "catTwo"], ["zero", "cat2", "jan", "empty"]),
                (["noCompleted", "todoJan", "todo", "noTodo"], ["todo", "todoN", "todoDone", "jan"]),
                (["sumEsc", "locEsc", "noSum", "fA"], ["esc", "sumMix", "jan", "empty", "m3"]),
                (["hasRrule", "noRrule", "tJan", "fA"], ["weekly", "jan", "feb", "m1"]),
                (["tJan", "tJan@Asia/Tokyo", "tJan@America/New_York", "tFeb@America/New_York", "tFeb"],
                 ["float", "floatIn", "allday", "jan", "edge"]),
                (["calAlarm", "calNoAlarm", "evAlarm", "evNoAlarm", "calStandard", "evAlarmAction"],
                 ["alarm", "alarmTz", "jan", "tz", "todo"])]
    bodies = list(BODIES)
    favoured = bodies
    if rng.random() < 0.6:
        fam, favoured = rng.choice(FAMILIES)
        fam = [f for f in fam if f.partition("@")[0] in FILTERS]
        focus = rng.sample(fam, min(3, len(fam)))
    else:
        focus = rng.sample(fl, 3)
    ops = []
    for _ in range(length):
        r = rng.random()
        if r < 0.22:
            ops.append(["put", rng.choice(names), rng.choice(favoured) if rng.random() < 0.7 else rng.choice(bodies)])
        elif r < 0.28:
            ops.append(["delete", rng.choice(names)])
        elif r < 0.32:
            # delete a member and upload the very same bytes again (same name or another one)
            prev = [o for o in ops if o[0] == "put"]
            if prev:
                _, n0, b0 = rng.choice(prev)
                ops.append(["put", n0, b0])
                ops.append(["delete", n0])
                ops.append(["put", n0, b0])
        elif r < 0.33:
            ops.append(["expand"])
        elif r < 0.37:
            # a member that cannot be parsed (damaged on disk), repaired under the same name later on
            broken = {}
            for o in ops:
                if o[0] == "put":
                    broken[o[1]] = (o[2] == "bad")
                elif o[0] == "delete":
                    broken.pop(o[1], None)
            bad = sorted(n for n, b in broken.items() if b)
            if bad:
                n0 = rng.choice(bad)
                if rng.random() < 0.5:
                    ops.append(["delete", n0])
                ops.append(["put", n0, rng.choice(favoured)])
            else:
                ops.append(["put", rng.choice(names), "bad"])
        else:
            # repeat a few focus filters often so that thresholds are crossed and the
            # index is reset and extended; sometimes another filter
            ops.append(["query", rng.choice(focus) if rng.random() < 0.8 else rng.choice(fl)])
    return ops


def run_ops(ops, level, threshold, storekind="tree", tid=0):
    """code -> spec: one explicit history (also the form in which witnesses of listed findings are kept)."""
    s = IndexSession(level, threshold, storekind)
    try:
        for op in ops:
            if op[0] == "put":
                s.put(op[1], op[2])
            elif op[0] == "delete":
                s.delete(op[1])
            elif op[0] == "expand":
                s.expand()
            else:
                s.query(op[1])
        t = s.trace(tid)
        t["ops"] = [list(o) for o in ops]
        return t
    finally:
        s.close()


def run_random(seed, level, threshold, storekind="tree", length=40):
    return run_ops(random_ops(seed, length), level, threshold, storekind, tid=seed)
