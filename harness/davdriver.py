"""Driver for the Dav cluster (C01 C02 C03 C06 C07 C08 C09 C14 C15 C16 C17):
executes abstract requests against a real server world, audits the complete
observable state after every step, and records everything as a trace for
DavTrace.tla.  The driver never judges: TLC does.
"""
import os
import shutil
import urllib.parse

from . import alpha, gamma, fsmon
from .alpha import DAV, CALDAV, CARDDAV, CS, APPLE, INF, Interner
from .world import World, git, make_bare_collection

# cal1 and ab1 live at the paths of the *default* calendar / addressbook: a start with
# --defaults creates them there when absent and must leave them alone otherwise
SLOTS = {
    "cal1": "/user/calendars/calendar",
    "cal2": "/user/calendars/cal2",
    "ab1": "/user/contacts/addressbook",
}
HOMES = {"cal1": "/user/calendars", "cal2": "/user/calendars", "ab1": "/user/contacts"}

FOREIGN_TOKENS = [
    "0123456789abcdef0123456789abcdef01234567",   # never issued, well-formed
    "not-a-token",
    "4b825dc642cb6eb9a060e54bf8d69288fbee4904x",  # almost the empty tree
    "zz" * 20,
    "déjà",
    # names git could resolve inside the collection's repository
    "HEAD", "refs/heads/main", "refs/heads/master", "main", "HEAD~1", "@",
]

PROP_READ = {
    "displayname": DAV + "displayname",
    "caldesc": CALDAV + "calendar-description",
    "abdesc": CARDDAV + "addressbook-description",
    "calcolor": APPLE + "calendar-color",
    "abcolor": INF + "addressbook-color",
    "order": APPLE + "calendar-order",
    "comment": DAV + "comment",
}


# The description and colour of a collection are served under a calendar- or an
# addressbook-specific property name depending on the (possibly guessed) kind of the
# collection; the abstract state knows them by one neutral name each.
NEUTRAL = {"caldesc": "desc", "abdesc": "desc", "calcolor": "color", "abcolor": "color"}


def slots_for(principal):
    """Slot paths below a principal (the default is /user/)."""
    base = "/" + principal.strip("/")
    return ({c: base + p[len("/user"):] for c, p in SLOTS.items()},
            {c: base + p[len("/user"):] for c, p in HOMES.items()})


class DavSession:
    def __init__(self, frontend="wsgi", prefix="/", backend="tree", index_threshold=None,
                 audit_git=True, max_sync_tokens=4, principal="/user/", strict=True, paranoid=False, gitconf=""):
        # strict: --no-strict deployments tolerate sloppy requests; paranoid: index answers are
        # double-checked against the naive evaluation.  Every property holds in all of them.
        # gitconf: git settings of the account / repositories the server runs with (text appended to
        # every collection's git config as soon as it exists), e.g. core.autocrlf
        self.gitconf = gitconf
        self.cfg = {"frontend": frontend, "prefix": prefix, "backend": backend, "principal": principal,
                    "strict": bool(strict), "paranoid": bool(paranoid), "gitconf": bool(gitconf)}
        self.slots, self.homes = slots_for(principal)
        self.world = World(frontend=frontend, prefix=prefix, index_threshold=index_threshold, principal=principal,
                           strict=strict, paranoid=paranoid)
        self.backend = backend
        self.audit_git = audit_git
        self.max_sync_tokens = max_sync_tokens
        self.B = Interner()    # canonical bodies
        self.X = Interner()    # exact bytes
        self.XN = Interner()   # bytes with CRLF -> LF (what survives XML transport)
        self.E = Interner()    # etag strings
        self.T = Interner()    # collection tags
        self.V = Interner()    # property values
        self.K = Interner()    # commit ids
        self.battr = {}        # b -> {"valid","uid","kind"}
        self.names = {c: set() for c in SLOTS}      # names ever used per slot
        self.tokens = {c: [] for c in SLOTS}        # sync tokens seen per slot (strings)
        self.etag_of_b = {}    # canonical body -> last etag string observed
        self.last_etag = {}    # (c, n) -> current etag string
        self.seen_etags = {}   # (c, n) -> [etag strings seen earlier]
        self.locked = set()
        self.acked_live = set()      # (slot, name): the server acknowledged creating / writing it, no delete since
        self.acked_deleted = set()   # (slot, name): the server acknowledged its deletion, nothing re-created it
        self.explicit = {}     # (slot, neutral property) -> value id set by an acknowledged instruction
        self.coll_etag = {}    # slot -> the collection's own getetag (string) as last observed
        self.seen_coll_etags = {}
        self._git_cache = {}
        self._light = {}
        self.events = []
        self.concrete = []     # concrete requests, for replay files
        self.foreign_i = 0
        if backend in ("bare", "barecfg", "treecfg"):
            self._precreate()
            for c in SLOTS:
                self._apply_gitconf(c)
        self.init_audit = self.audit()

    # -- setup for backends the server cannot create itself ----------------
    def _precreate(self):
        kinds = {"cal1": "calendar", "cal2": "calendar", "ab1": "addressbook"}
        for c, path in self.slots.items():
            p = self.world.fspath(path)
            if self.backend in ("bare", "barecfg"):
                make_bare_collection(p, kinds[c], use_git_config=(self.backend == "barecfg"))
            else:
                from xandikos.store.git import TreeGitStore
                TreeGitStore.create(p)
                git(p, "config", "xandikos.type", kinds[c])
        self.world.restart()

    def close(self):
        self.world.close()

    # -- body bookkeeping ---------------------------------------------------
    def body_id(self, data, kind, valid=None):
        if kind == "ics":
            key = alpha.canon_ics(data)
        else:
            key = (kind, data)
        b = self.B(key)
        if b not in self.battr:
            uid = ""
            if kind == "ics":
                u = alpha.first_uid(data)
                uid = alpha.unescape_text(u) if u else ""
            if valid is None:
                valid = key[0] != "unparsed"
            self.battr[b] = {"valid": bool(valid), "uid": uid, "kind": kind}
        return b

    def cond(self, spec, c, n):
        """spec: None | list of classes in {cur, stale, other, star, unq, weak, garbage} -> (header, record)."""
        if not spec:
            return None, {"present": False, "star": False, "tags": []}
        vals = []
        star = False
        tags = []
        cur = self.last_etag.get((c, n))
        for cls in spec:
            if cls == "star":
                vals.append("*")
                star = True
                continue
            if cls in ("empty", "blank"):
                # the header is there and lists nothing (an empty / white-space value)
                vals.append("" if cls == "empty" else "  ")
                continue
            if cls == "cur":
                e = cur or '"never-existed"'
            elif cls == "stale":
                old = [x for x in self.seen_etags.get((c, n), []) if x != cur]
                e = old[-1] if old else '"stale-0000000000000000000000000000000000"'
            elif cls == "other":
                oth = [v for (k, v) in sorted(self.last_etag.items()) if k != (c, n) and v != cur]
                e = oth[0] if oth else '"other-000000000000000000000000000000000"'
            elif cls == "unq":
                vals.append((cur or '"x"').strip('"'))
                continue
            elif cls == "weak":
                # the current etag as a weak validator: If-Match compares strongly (RFC 7232 3.1),
                # so it lists no etag the resource could have (only used in If-Match)
                vals.append("W/" + (cur or '"x"'))
                continue
            elif cls == "qstar":      # an entity tag whose value is an asterisk - not the wildcard
                e = '"*"'
            elif cls == "starin":     # an entity tag with an asterisk inside
                e = '"rev*7"'
            elif cls == "garbage":
                e = '"deadbeefdeadbeefdeadbeefdeadbeefdeadbeef"'
            elif cls.startswith("etag:"):
                e = cls[5:]
            else:
                raise ValueError(cls)
            vals.append(e)
            tags.append(self.E(e))
        hv = ", ".join(vals) if any(v.strip() for v in vals) else "".join(vals)
        return hv, {"present": True, "star": star, "tags": sorted(set(tags))}

    # -- recording ------------------------------------------------------------
    def _record(self, ev, resp, concrete):
        cls, cond = alpha.response_class(resp) if resp is not None else ("ok", "")
        et = resp.header("ETag") if resp is not None else None
        ev["resp"] = {"cls": cls, "cond": cond, "etag": self.E(et) if et else 0,
                      "status": resp.status if resp is not None else 0}
        ev["lk"] = ev.get("c") in self.locked
        self._note_ack(ev)
        ev["audit"] = self.audit(target=ev.get("c"))
        self.events.append(ev)
        self.concrete.append(concrete)
        return ev

    # -- operations -----------------------------------------------------------
    def _external(self, method, path, hdrs, body):
        """The request is served by ANOTHER server process on the same data directory (a second
        worker): the long-lived server under test must see its effect like any other write."""
        import base64
        import json as _json
        import subprocess
        import sys
        import tempfile
        from .world import Response
        job = {"root": self.world.root, "prefix": self.world.prefix, "principal": self.world.principal,
               "requests": [{"method": method, "path": path, "headers": [list(h) for h in hdrs],
                             "body": base64.b64encode(body).decode() if body is not None else None}]}
        with tempfile.NamedTemporaryFile("w", suffix=".json", dir=os.path.dirname(self.world.root), delete=False) as f:
            _json.dump(job, f)
        try:
            p = subprocess.run([sys.executable, "-m", "harness.extworker", f.name], stdout=subprocess.PIPE,
                               stderr=subprocess.DEVNULL, timeout=120,
                               env=dict(os.environ, PYTHONPATH=os.environ.get("PYTHONPATH", "/verif:/repo")))
            out = _json.loads(p.stdout.decode() or "[]")
        finally:
            os.unlink(f.name)
        if not out:
            raise RuntimeError("external worker gave no answer")
        r = out[0]
        return Response(r["status"], [tuple(h) for h in r["headers"]], base64.b64decode(r["body"]))

    def _request(self, method, path, hdrs, body, fault=0, external=False):
        """One request, optionally with an injected ENOSPC at the fault-th file-system
        mutation below the data directory."""
        if external:
            self._fault_fired = False
            return self._external(method, path, hdrs, body)
        if fault:
            # fault > 0: ENOSPC at the fault-th file-system mutation; fault < 0: the |fault|-th file
            # opened for writing opens (and is truncated) but cannot be written to
            with (fsmon.FaultInjector(self.world.root, fault) if fault > 0 else
                  fsmon.WriteFaultInjector(self.world.root, -fault)) as fi:
                resp = self.world.request(method, path, hdrs, body)
            self._fault_fired = fi.fired is not None
            self._fault_gate = ""
            if fi.fired is not None:
                # which step of the write protocol the fault hit (fsmon gate names)
                ev_, paths_ = fi.fired
                coll = os.path.dirname(os.path.join(self.world.root, path.lstrip("/")))
                try:
                    self._fault_gate = fsmon.gate_name(ev_, paths_, coll)
                except Exception:
                    self._fault_gate = "?"
            return resp
        self._fault_fired = False
        return self.world.request(method, path, hdrs, body)

    def _apply_gitconf(self, c):
        if not self.gitconf:
            return
        d = self.world.fspath(self.slots[c])
        for cf in (os.path.join(d, ".git", "config"), os.path.join(d, "config")):
            if os.path.isfile(cf):
                txt = open(cf).read()
                if self.gitconf not in txt:
                    with open(cf, "a") as f:
                        f.write("\n" + self.gitconf + "\n")
                return

    def _holders_gone(self, c, n, b):
        """Every member the last audit shows with the UID of body b (other than n) is one whose
        deletion the server has acknowledged: the UID is free by the server's own word."""
        uid = self.battr.get(b, {}).get("uid") or ""
        if not uid or not self.events:
            return False
        mem = self.events[-1]["audit"]["colls"].get(c, {}).get("members", {})
        holders = [m for m, r in mem.items() if m != n and self.battr.get(r.get("b"), {}).get("uid") == uid]
        return bool(holders) and all((c, m) in self.acked_deleted for m in holders)

    def _note_ack(self, ev):
        """Keep track of acknowledged deletions (and of what re-creates a name)."""
        if ev["resp"]["cls"] != "ok":
            return
        if ev["op"] == "Delete":
            self.acked_deleted.add((ev["c"], ev["n"]))
            self.acked_live.discard((ev["c"], ev["n"]))
        elif ev["op"] in ("Put", "Post"):
            self.acked_deleted.discard((ev["c"], ev.get("n", "")))
            if ev.get("n"):
                self.acked_live.add((ev["c"], ev["n"]))
        elif ev["op"] in ("Mk", "DeleteColl"):
            self.acked_deleted = {k for k in self.acked_deleted if k[0] != ev["c"]}
            self.acked_live = {k for k in self.acked_live if k[0] != ev["c"]}

    def put(self, c, n, data, ct=None, im=None, inm=None, valid=None, re=False, fault=0, chunked=False,
            external=False, segmented=False, byname=False):
        ct = ct or gamma.content_type_for(n)
        kind = gamma.kind_for_ct(ct)
        if byname:
            # the request labels the body as a generic file; what it *is* follows from the name
            # it is stored under (that is how it will be served)
            kind = gamma.kind_for_ct(gamma.content_type_for(n))
        b = self.body_id(data, kind, valid)
        self.names[c].add(n)
        hdrs = [("Content-Type", ct)]
        imh, imr = self.cond(im, c, n)
        inmh, inmr = self.cond(inm, c, n)
        if imh is not None:
            hdrs.append(("If-Match", imh))
        if inmh is not None:
            hdrs.append(("If-None-Match", inmh))
        path = self.slots[c] + "/" + n
        self.world.chunked_next = bool(chunked)     # (aiohttp front end: Transfer-Encoding: chunked)
        self.world.segmented_next = bool(segmented)  # (aiohttp: the request arrives in several segments)
        resp = self._request("PUT", path, hdrs, data, fault, external=external)
        ev = {"op": "Put", "c": c, "n": n, "b": b, "im": imr, "inm": inmr, "re": bool(re),
              "gone": self._holders_gone(c, n, b),
              "acklive": (c, n) in self.acked_live,
              "fault": fault if self._fault_fired else 0, "ext": bool(external),
              "fgate": getattr(self, "_fault_gate", "") if self._fault_fired else ""}
        return self._record(ev, resp, {"m": "PUT", "path": path, "headers": hdrs,
                                       "body": data.decode("utf-8", "replace")})

    def post(self, c, data, ct):
        kind = gamma.kind_for_ct(ct)
        b = self.body_id(data, kind)
        path = self.slots[c] + "/"
        resp = self.world.request("POST", path, [("Content-Type", ct)], data)
        n = ""
        loc = resp.header("Location")
        if loc:
            p = urllib.parse.unquote(urllib.parse.urlsplit(loc).path)
            n = p.rstrip("/").rsplit("/", 1)[-1]
            self.names[c].add(n)
        ev = {"op": "Post", "c": c, "n": n, "b": b}
        return self._record(ev, resp, {"m": "POST", "path": path, "ct": ct,
                                       "body": data.decode("utf-8", "replace")})

    def delete(self, c, n, im=None, fault=0, external=False):
        self.names[c].add(n)
        hdrs = []
        imh, imr = self.cond(im, c, n)
        if imh is not None:
            hdrs.append(("If-Match", imh))
        path = self.slots[c] + "/" + n
        resp = self._request("DELETE", path, hdrs, None, fault, external=external)
        ev = {"op": "Delete", "c": c, "n": n, "im": imr, "fault": fault if self._fault_fired else 0,
              "ext": bool(external), "fgate": getattr(self, "_fault_gate", "") if self._fault_fired else ""}
        return self._record(ev, resp, {"m": "DELETE", "path": path, "headers": hdrs})

    def mk(self, c, kind, how="auto", props=()):
        """Create collection slot c.  how: mkcalendar | mkcol | xmkcol (extended MKCOL)."""
        path = self.slots[c] + "/"
        if how == "auto":
            how = {"calendar": "mkcalendar", "addressbook": "xmkcol", "other": "mkcol"}[kind]
        if how == "mkcalendar" and props:
            resp = self.world.request("MKCALENDAR", path, [("Content-Type", "text/xml")],
                                      gamma.mkcalendar_body(props))
        elif how == "mkcalendar":
            resp = self.world.request("MKCALENDAR", path, [], None)
        elif how == "mkcol":
            resp = self.world.request("MKCOL", path, [], None)
        else:
            resp = self.world.request("MKCOL", path, [("Content-Type", "text/xml")],
                                      gamma.mkcol_body(kind, props))
        # per-property status of properties given at creation time
        mprops = []
        if props and resp.body[:1] == b"<":
            import xml.etree.ElementTree as ET
            try:
                root = ET.fromstring(resp.body)
                st = {}
                for ps in root.iter(DAV + "propstat"):
                    code = None
                    for ch in ps:
                        if ch.tag == DAV + "status":
                            code = alpha.status_code(ch.text)
                    for pr in ps.iter(DAV + "prop"):
                        for el in pr:
                            st[el.tag] = code
                for p, v in props:
                    mprops.append({"p": NEUTRAL.get(p, p), "v": self.V(v), "pst": st.get(gamma.PROP_TAGS[p]) or 0})
            except ET.ParseError:
                pass
        self._apply_gitconf(c)
        ev = {"op": "Mk", "c": c, "kind": kind, "how": how, "mprops": mprops}
        return self._record(ev, resp, {"m": how, "path": path, "props": list(props)})

    def cond_coll(self, spec, c):
        """If-Match on a collection: classes relative to the collection's own getetag."""
        if not spec:
            return None, {"present": False, "star": False, "tags": []}
        cur = self.coll_etag.get(c)
        vals, tags, star = [], [], False
        for cls in spec:
            if cls == "star":
                vals.append("*")
                star = True
                continue
            if cls == "cur":
                e = cur or '"never-existed"'
            elif cls == "stale":
                old = [x for x in self.seen_coll_etags.get(c, []) if x != cur]
                e = old[-1] if old else '"stale-0000000000000000000000000000000000"'
            elif cls == "other":     # the etag of one of its members / of another resource
                oth = [v for (k, v) in sorted(self.last_etag.items()) if v != cur]
                e = oth[0] if oth else '"other-000000000000000000000000000000000"'
            elif cls == "unq":
                vals.append((cur or '"x"').strip('"'))
                continue
            elif cls == "weak":
                vals.append("W/" + (cur or '"x"'))
                continue
            else:
                e = '"deadbeefdeadbeefdeadbeefdeadbeefdeadbeef"'
            vals.append(e)
            tags.append(self.E(e))
        return ", ".join(vals), {"present": True, "star": star, "tags": sorted(set(tags))}

    def delete_coll(self, c, im=None):
        path = self.slots[c] + "/"
        imh, imr = self.cond_coll(im, c)
        cet = self.E(self.coll_etag[c]) if self.coll_etag.get(c) and c in (self.events[-1]["audit"]["colls"] if self.events else self.init_audit["colls"]) else 0
        hdrs = [("If-Match", imh)] if imh is not None else []
        resp = self.world.request("DELETE", path, hdrs)
        ev = {"op": "DeleteColl", "c": c, "im": imr, "cet": cet}
        ev = self._record(ev, resp, {"m": "DELETE", "path": path, "headers": hdrs})
        if ev["resp"]["cls"] == "ok":
            self.explicit = {k: v for k, v in self.explicit.items() if k[0] != c}
            self.coll_etag.pop(c, None)
        return ev

    def proppatch(self, c, p, value):
        """Set (value: str) or remove (value None) one collection property."""
        return self.propupdate(c, [(p, value)])

    def propupdate(self, c, ops, cdata=False, enc=None, fault=0):
        """One PROPPATCH with the instructions ops = [(property, value or None = remove)] in this order.
        enc: the request body in another encoding / Content-Type spelling (gamma.reencode_xml)."""
        path = self.slots[c] + "/"
        body = gamma.proppatch_body(ops, cdata=cdata)
        ctype = "text/xml"
        if enc:
            re_ = gamma.reencode_xml(body, enc)
            if re_ is not None:
                body, ctype = re_
        resp = self._request("PROPPATCH", path, [("Content-Type", ctype)], body, fault)
        # per-property status decides whether the server reported success
        status = {}
        if resp.status == 207:
            try:
                rs, _ = alpha.parse_multistatus(resp.body)
                for r in rs:
                    for (p, _) in ops:
                        t = r.props.get(gamma.PROP_TAGS[p])
                        if t is not None:
                            status[p] = t[0]
            except ValueError:
                pass
        # free: the value is outside the grammar C15 speaks about (a colour without '#'): what it
        # reads back as is not judged, everything else about the request is
        def vcls(v):
            if v is None or "\n" not in v:
                return "plain"
            rest = v.split("\n")[1:]
            if any(ln[:1] in ("#", ";") for ln in rest):
                return "comment-line"
            if any(ln != ln.strip() for ln in v.split("\n")):
                return "indented-line"
            return "multiline"
        ins = [{"p": NEUTRAL.get(p, p), "xp": p, "set": v is not None, "v": self.V(v) if v is not None else 0,
                "pst": status.get(p) or 0, "vcls": vcls(v),
                "free": bool(v is not None and NEUTRAL.get(p, p) == "color" and not v.startswith("#"))}
               for (p, v) in ops]
        for x, (p, v) in zip(ins, ops):
            # a PROPPATCH of DAV:resourcetype asks for another kind of collection: rt is the kind
            # the listed elements denote ("" when they denote none - junk / no collection)
            x["rt"] = ""
            if p == "resourcetype":
                els = [e for e in (v or "").split(",") if e]
                x["v"] = 0
                x["rt"] = {("collection",): "other", ("calendar", "collection"): "calendar",
                           ("addressbook", "collection"): "addressbook"}.get(tuple(sorted(els)), "")
        # noop: the instruction sets the value an earlier acknowledged instruction of this session
        # stored for that property (and nothing removed it since): a request that changes nothing
        for x in ins:
            key = (c, x["p"])
            x["noop"] = bool(x["set"] and not x["free"] and x["p"] != "resourcetype"
                             and self.explicit.get(key) == x["v"])
            if x["p"] == "resourcetype":
                continue
            if x["pst"] == 200:
                if x["set"] and not x["free"]:
                    self.explicit[key] = x["v"]
                else:
                    self.explicit.pop(key, None)
        ev = {"op": "Proppatch", "c": c, "ins": ins}
        return self._record(ev, resp, {"m": "PROPPATCH", "path": path, "ops": [[p, v] for (p, v) in ops]})

    def restart(self, defaults=False):
        failed = ""
        try:
            self.world.restart(defaults=defaults)
        except Exception as exc:
            # the server did not come up (an observation, e.g. start-up code that writes and runs
            # into a lock the environment holds): the environment's locks go, it is started again
            failed = type(exc).__name__
            for c in list(self.locked):
                p = os.path.join(self.world.fspath(self.slots[c]), ".git", "index.lock")
                if os.path.exists(p):
                    os.unlink(p)
                self.locked.discard(c)
            self.world.start()
        ev = {"op": "Restart", "defaults": bool(defaults), "startfail": failed}
        return self._record(ev, None, {"m": "RESTART", "defaults": bool(defaults), "start_failed": failed})

    def lock(self, c, on=True):
        """Environment action: a stale .git/index.lock appears / disappears (tree stores)."""
        p = os.path.join(self.world.fspath(self.slots[c]), ".git", "index.lock")
        if on:
            if os.path.isdir(os.path.dirname(p)):
                open(p, "wb").close()
                self.locked.add(c)
        else:
            if os.path.exists(p):
                os.unlink(p)
            self.locked.discard(c)
        return self._record({"op": "Lock" if on else "Unlock", "c": c}, None,
                            {"m": "LOCK" if on else "UNLOCK", "c": c})

    def get(self, c, n, inm=None, head=False):
        hdrs = []
        inmh, inmr = self.cond(inm, c, n)
        if inmh is not None:
            hdrs.append(("If-None-Match", inmh))
        path = self.slots[c] + "/" + n
        resp = self.world.request("HEAD" if head else "GET", path, hdrs)
        ev = {"op": "Get", "c": c, "n": n, "inm": inmr, "head": head,
              "bodylen": len(resp.body)}
        return self._record(ev, resp, {"m": "GET", "path": path, "headers": hdrs})

    def uidquery(self, c, uid):
        """calendar-query: VEVENTs whose UID is the given one (a read)."""
        from xml.sax.saxutils import escape
        body = ('<?xml version="1.0" encoding="utf-8"?><C:calendar-query xmlns:C="urn:ietf:params:xml:ns:caldav" '
                'xmlns:D="DAV:"><D:prop><D:getetag/></D:prop><C:filter><C:comp-filter name="VCALENDAR">'
                '<C:comp-filter name="VEVENT"><C:prop-filter name="UID"><C:text-match collation="i;octet">%s'
                '</C:text-match></C:prop-filter></C:comp-filter></C:comp-filter></C:filter></C:calendar-query>'
                % escape(uid)).encode("utf-8")
        path = self.slots[c] + "/"
        resp = self.world.request("REPORT", path, [("Content-Type", "text/xml"), ("Depth", "1")], body)
        return self._record({"op": "Query", "c": c}, resp, {"m": "REPORT", "path": path, "uid": uid})

    def reupload(self, c, n):
        """A client stores again exactly what the server serves for the member."""
        g = self.world.request("GET", self.slots[c] + "/" + n)
        if g.status == 200:
            return self.put(c, n, g.body, re=True)

    def expandquery(self, c):
        """calendar-query asking for the expanded form of every event of 2020/2021 (a read)."""
        body = ('<?xml version="1.0" encoding="utf-8"?><C:calendar-query xmlns:C="urn:ietf:params:xml:ns:caldav" '
                'xmlns:D="DAV:"><D:prop><D:getetag/><C:calendar-data><C:expand start="20200101T000000Z" '
                'end="20220101T000000Z"/></C:calendar-data></D:prop><C:filter><C:comp-filter name="VCALENDAR">'
                '<C:comp-filter name="VEVENT"/></C:comp-filter></C:filter></C:calendar-query>').encode("utf-8")
        path = self.slots[c] + "/"
        resp = self.world.request("REPORT", path, [("Content-Type", "text/xml"), ("Depth", "1")], body)
        return self._record({"op": "Query", "c": c}, resp, {"m": "REPORT-expand", "path": path})

    def multiget(self, c, items):
        """items: list of (class, name) with class in
        live|missing|dup|enc|abs|othercoll|outside|coll|malformed ; recorded with the answers."""
        w = self.world
        base = self.slots[c] + "/"
        kind = self._kind_guess(c)
        hrefs = []
        desc = []
        for cls, n in items:
            plain = w.url(base + n)
            if cls in ("live", "missing", "dup"):
                h = urllib.parse.quote(plain)
            elif cls == "enc":   # percent-encode every character of the name
                h = urllib.parse.quote(w.url(base)) + "".join("%%%02X" % ch for ch in n.encode("utf-8"))
            elif cls == "abs":
                h = "http://localhost" + urllib.parse.quote(plain)
            elif cls.startswith("othercoll"):
                oc = cls.split(":", 1)[1] if ":" in cls else [s for s in SLOTS if s != c][0]
                cls = "othercoll"
                h = urllib.parse.quote(w.url(self.slots[oc] + "/" + n))
            elif cls == "outside":
                h = "/outside-the-namespace/" + urllib.parse.quote(n)
            elif cls == "coll":
                h = urllib.parse.quote(w.url(base))
            elif cls == "dotpath":     # a spelling with a dot segment / doubled slash in the path
                bq = urllib.parse.quote(w.url(base))
                h = bq + ["./", "/", "../" + base.rstrip("/").rsplit("/", 1)[-1] + "/"][len(n) % 3] + urllib.parse.quote(n)
            elif cls == "malformed":
                h = "::" + n
            elif cls == "badutf":     # a percent-escape that is not valid UTF-8
                h = urllib.parse.quote(w.url(base)) + "%FF" + urllib.parse.quote(n)
            else:
                raise ValueError(cls)
            hrefs.append(h)
            desc.append({"cls": cls, "n": n, "h": len(hrefs), "oc": oc if cls == "othercoll" else c})
        body = gamma.multiget_body("calendar" if kind != "addressbook" else "addressbook", hrefs)
        resp = w.request("REPORT", base, [("Content-Type", "text/xml"), ("Depth", "1")], body)

        def pathkey(h):
            # what the href designates: path component, percent-decoded
            return urllib.parse.unquote(urllib.parse.urlsplit(h).path if "://" in h else h)

        keys = [pathkey(h) for h in hrefs]
        groups = []
        for k in keys:
            if k not in groups:
                groups.append(k)
        for d, k, h in zip(desc, keys, hrefs):
            d["g"] = groups.index(k) + 1
            # identity of the href as a URI reference: percent-encoding variants and the
            # absolute form of the same URL are the same reference (RFC 3986 5.2, 6.2.2),
            # so "distinct hrefs" are counted by what they designate
            d["t"] = d["g"]
        answers = []
        if resp.status == 207:
            try:
                rs, _ = alpha.parse_multistatus(resp.body)
            except ValueError:
                rs = []
            datatag = (CALDAV + "calendar-data") if kind != "addressbook" else (CARDDAV + "address-data")
            for r in rs:
                k = pathkey(r.href or "")
                gi = (groups.index(k) + 1) if k in groups else 0
                et = r.text(DAV + "getetag")
                data = r.text(datatag)
                found = (r.status in (None, 200)) and (et is not None or data is not None)
                answers.append({"g": gi, "found": bool(found),
                                "e": self.E(et) if et else 0,
                                "xn": self.XN(data.encode("utf-8").replace(b"\r\n", b"\n")) if data is not None else 0,
                                "hasdata": data is not None})
        ev = {"op": "Multiget", "c": c, "items": desc, "answers": answers,
              "rk": "vcf" if kind == "addressbook" else "ics"}
        return self._record(ev, resp, {"m": "REPORT-multiget", "path": base, "hrefs": hrefs})

    def _kind_guess(self, c):
        a = self.events[-1]["audit"] if self.events else self.init_audit
        return a["colls"].get(c, {}).get("kind", "calendar")

    # -- audit ----------------------------------------------------------------
    def audit(self, target=None):
        """Complete audit.  A collection other than the request's target whose PROPFIND
        answer and repository files are byte-identical to the previous audit is not
        re-read member by member (target=None: everything is re-read)."""
        colls = {}
        for c in SLOTS:
            a = self._audit_coll(c, full=(target is None or c == target))
            if a is not None:
                colls[c] = a
        homes = {}
        for h in sorted(set(self.homes.values())):
            homes[h.rsplit("/", 1)[-1]] = self._audit_home(h)
        # forget current etags of vanished resources
        return {"colls": colls, "homes": homes}

    def _audit_home(self, path):
        w = self.world
        r = w.request("PROPFIND", path + "/", [("Depth", "1"), ("Content-Type", "text/xml")],
                      gamma.PROPFIND_ALL)
        out = []
        if r.status == 207:
            rs, _ = alpha.parse_multistatus(r.body)
            base = urllib.parse.unquote(w.url(path + "/"))
            for x in rs:
                h = urllib.parse.unquote(x.href or "")
                if h.rstrip("/") == base.rstrip("/"):
                    continue
                name = h.rstrip("/").rsplit("/", 1)[-1]
                # directory name -> slot name
                out.append(next((c for c, sp in self.slots.items() if sp == path + "/" + name), name))
        return sorted(out)

    def _audit_coll(self, c, full=True):
        import copy
        w = self.world
        path = self.slots[c] + "/"
        r = w.request("PROPFIND", path, [("Depth", "1"), ("Content-Type", "text/xml")],
                      gamma.PROPFIND_ALL)
        p = w.fspath(self.slots[c])
        key = (r.status, r.body, self._repo_fingerprint(p) if os.path.isdir(p) else None,
               c in self.locked)
        if not full and self._light.get(c, (None, None))[0] == key:
            return copy.deepcopy(self._light[c][1])
        a = self._audit_coll_full(c, r)
        self._light[c] = (key, copy.deepcopy(a))
        return a

    def _audit_coll_full(self, c, r):
        w = self.world
        path = self.slots[c] + "/"
        if alpha.response_class(r)[0] == "notfound":
            for n in list(self.names[c]):
                self.last_etag.pop((c, n), None)
            self.tokens[c] = []
            return None
        if r.status != 207:
            return {"kind": "broken", "status": r.status, "listing": [], "members": {},
                    "cfg": 0, "typed": True, "tagged": True, "tags": [], "props": {}, "sync": [], "hrefs_ok": False,
                    "git": {"bare": False, "log": [], "tree": {}, "clean": False, "fsck": False,
                            "linear": True, "skipped": True, "status": ""}}
        rs, _ = alpha.parse_multistatus(r.body)
        base_url = urllib.parse.unquote(w.url(path))
        me = None
        listing = []
        pf_etag = {}
        hrefs_ok = True
        for x in rs:
            h = urllib.parse.unquote(x.href or "")
            if h.rstrip("/") == base_url.rstrip("/"):
                me = x
                if not (x.href or "").endswith("/"):
                    hrefs_ok = False
                continue
            if not h.startswith(base_url):
                hrefs_ok = False
                continue
            n = h[len(base_url):]
            rt = x.prop_ok(DAV + "resourcetype")
            if rt is not None and any(ch.tag == DAV + "collection" for ch in rt):
                continue   # sub-collections are not members in the sense of C01
            listing.append(n)
            pf_etag[n] = x.text(DAV + "getetag")
        if me is None:
            return {"kind": "broken", "status": 207, "listing": [], "members": {}, "cfg": 0, "typed": True,
                    "tagged": True, "tags": [], "props": {}, "sync": [], "hrefs_ok": False,
                    "git": {"bare": False, "log": [], "tree": {}, "clean": False, "fsck": False,
                            "linear": True, "skipped": True, "status": ""}}
        rt = me.prop_ok(DAV + "resourcetype")
        kind = "other"
        if rt is not None:
            tags = [ch.tag for ch in rt]
            if CALDAV + "calendar" in tags:
                kind = "calendar"
            elif CARDDAV + "addressbook" in tags:
                kind = "addressbook"
        # collection tags (four views)
        tagviews = []
        for t in (DAV + "getctag", CS + "getctag", DAV + "sync-token"):
            v = me.text(t)
            if v is not None:
                tagviews.append(self.T(v))
        v = me.text(DAV + "getetag")
        if v is not None:
            tagviews.append(self.T(v.strip('"')))
            if self.coll_etag.get(c) not in (None, v):
                self.seen_coll_etags.setdefault(c, []).append(self.coll_etag[c])
            self.coll_etag[c] = v
        cur_token = me.text(DAV + "sync-token")
        props = {}
        for p, t in PROP_READ.items():
            v = me.text(t)
            if v:        # an empty element is how the server shows an unset text property
                props[NEUTRAL.get(p, p)] = self.V(v)
        # members: every candidate name is fetched
        cands = sorted(set(listing) | self.names[c])
        self.names[c].update(listing)
        members = {}
        got = {}
        for n in cands:
            g = w.request("GET", path + n)
            if g.status == 404:
                self.last_etag.pop((c, n), None)
                continue
            if g.status != 200:
                members[n] = {"b": 0, "x": 0, "xn": 0, "e": 0, "views": [], "dviews": [], "st": g.status}
                continue
            hd = w.request("HEAD", path + n)
            kindn = gamma.kind_for_ct(gamma.content_type_for(n))
            et = g.header("ETag")
            views = [self.E(et) if et else 0]
            het = hd.header("ETag")
            views.append(self.E(het) if (hd.status == 200 and het) else 0)
            views.append(self.E(pf_etag[n]) if pf_etag.get(n) else 0)
            got[n] = g.body
            members[n] = {"b": self.body_id(g.body, kindn), "x": self.X(g.body),
                          "xn": self.XN(g.body.replace(b"\r\n", b"\n")),
                          "e": self.E(et) if et else 0, "views": views, "dviews": [], "st": 200}
            if et:
                if self.last_etag.get((c, n)) != et:
                    self.seen_etags.setdefault((c, n), []).append(et)
                self.last_etag[(c, n)] = et
                self.etag_of_b[members[n]["b"]] = et
        # report views
        if kind in ("calendar", "addressbook") and cands:
            hrefs = [urllib.parse.quote(w.url(path + n)) for n in cands]
            datatag = (CALDAV + "calendar-data") if kind == "calendar" else (CARDDAV + "address-data")
            mg = w.request("REPORT", path, [("Content-Type", "text/xml"), ("Depth", "1")],
                           gamma.multiget_body(kind, hrefs))
            self._merge_report(mg, base_url, members, datatag, "mg", kind)
            q = w.request("REPORT", path, [("Content-Type", "text/xml"), ("Depth", "1")],
                          gamma.query_all_body(kind))
            self._merge_report(q, base_url, members, datatag, "q", kind)
        # sync-collection: empty token, every remembered token, one foreign token
        sync = []
        if cur_token is not None:
            if cur_token not in self.tokens[c]:
                self.tokens[c].append(cur_token)
            toks = self.tokens[c]
            pick = toks[:1] + toks[1:][-(self.max_sync_tokens - 1):] if len(toks) > self.max_sync_tokens else toks
            # issued tokens first, newest first (an initial sync must not be what makes a token
            # the collection handed out usable), then the empty token, then a foreign one
            # a token another collection of this server issued (and this one never did)
            # (not the id of the empty tree: every repository knows that object)
            # (nor a tree this collection's own history contains - tokens are content addresses,
            # two collections with the same contents at some time share the token of that state)
            sib = [t for oc in sorted(self.tokens) if oc != c for t in self.tokens[oc][-2:]
                   if t not in toks and "4b825dc642cb6eb9a060e54bf8d69288fbee4904" not in t
                   and not self._knows_object(c, t)]
            for tok, tk in [(t, "issued") for t in reversed(pick)] + [("", "empty")] + \
                           [(FOREIGN_TOKENS[self.foreign_i % len(FOREIGN_TOKENS)], "foreign")] + \
                           [(t, "foreign") for t in sib[-1:]]:
                sync.append(self._sync_report(c, path, base_url, tok, tk, members))
            # the same for another choice of requested properties (none of them depends on the
            # member's content): the newest token this collection issued before, and the empty one
            variant = [("getcontenttype",), ("resourcetype",), (), ("getcontenttype", "displayname")][self.foreign_i % 4]
            older = [t for t in reversed(pick) if t != cur_token]
            for tok, tk in ([(older[0], "issued")] if older else []) + ([("", "empty")] if self.foreign_i % 2 else []):
                sync.append(self._sync_report(c, path, base_url, tok, tk, members, props=variant))
            self.foreign_i += 1
        typed_fallback = self._typed(c)
        gitinfo = self._audit_git(c, members) if self.audit_git else \
            {"bare": False, "log": [], "tree": {}, "clean": True, "fsck": True, "skipped": True,
             "linear": True, "status": "", "cfg": 0}
        return {"kind": kind, "listing": listing, "members": members, "cfg": gitinfo.pop("cfg", 0),
                "typed": bool(gitinfo.pop("typed", typed_fallback)), "tagged": True, "tags": tagviews, "props": props, "sync": sync, "hrefs_ok": hrefs_ok,
                "git": gitinfo}

    def _knows_object(self, c, token):
        """Does the repository of collection c contain the object the token names?"""
        import re
        m = re.search(r"[0-9a-f]{40}", token)
        if not m:
            return False
        try:
            import dulwich.repo
            r = dulwich.repo.Repo(self.world.fspath(self.slots[c]))
            try:
                return m.group(0).encode("ascii") in r.object_store
            finally:
                r.close()
        except Exception:
            return False

    def _merge_report(self, resp, base_url, members, datatag, which, kind):
        if resp.status != 207:
            for m in members.values():
                m["views"].append(0)
            return
        try:
            rs, _ = alpha.parse_multistatus(resp.body)
        except ValueError:
            rs = []
        seen = set()
        for x in rs:
            h = urllib.parse.unquote(x.href or "")
            n = h[len(base_url):] if h.startswith(base_url) else None
            if n in members and n not in seen:
                seen.add(n)
                et = x.text(DAV + "getetag")
                data = x.text(datatag)
                wanted = (kind == "calendar" and n.lower().endswith(".ics")) or \
                         (kind == "addressbook" and n.lower().endswith(".vcf"))
                if et is not None or which == "mg" or wanted:
                    members[n]["views"].append(self.E(et) if et else 0)
                if data is not None:
                    members[n]["dviews"].append(
                        self.XN(data.encode("utf-8").replace(b"\r\n", b"\n")))
                elif wanted and (x.status in (None, 200)):
                    members[n]["dviews"].append(0)
        for n, m in members.items():
            if n not in seen and m.get("st") == 200:
                wanted = (kind == "calendar" and n.lower().endswith(".ics")) or \
                         (kind == "addressbook" and n.lower().endswith(".vcf"))
                if which == "mg" or wanted:
                    m["views"].append(0)    # a live member missing from the report

    def _sync_report(self, c, path, base_url, tok, tk, members, props=("getetag",)):
        """props without getetag: which members a report names must not depend on the properties
        asked for - the etag column is then filled from the audit (names are what is judged)."""
        w = self.world
        r = w.request("REPORT", path, [("Content-Type", "text/xml")], gamma.sync_body(tok, props))
        rec = {"t": self.T(tok) if tok else 0, "kind": tk, "ok": False, "changed": {},
               "removed": [], "token": 0, "extra": 0}
        if r.status != 207:
            return rec
        try:
            rs, token = alpha.parse_multistatus(r.body)
        except ValueError:
            return rec
        if len(rs) == 1 and rs[0].status is not None and rs[0].status >= 400 and rs[0].error is not None:
            return rec   # a DAV:error carried in a 207
        rec["ok"] = True
        rec["token"] = self.T(token) if token else 0
        for x in rs:
            h = urllib.parse.unquote(x.href or "")
            n = h[len(base_url):] if h.startswith(base_url) else None
            if n is None or n == "":
                rec["extra"] += 1
                continue
            if x.status == 404:
                rec["removed"].append(n)
            else:
                et = x.text(DAV + "getetag")
                if n in rec["changed"]:
                    rec["extra"] += 1
                rec["changed"][n] = self.E(et) if et else 0
                if "getetag" not in props and n in members:
                    rec["changed"][n] = members[n]["e"]
        rec["removed"].sort()
        return rec

    def _typed(self, c):
        """Does the collection carry an explicit type (versioned .xandikos or git config)?
        An untyped collection has its type guessed from its contents by the server."""
        p = self.world.fspath(self.slots[c])
        bare = not os.path.isdir(os.path.join(p, ".git"))
        try:
            txt = open(os.path.join(p, "config") if bare else os.path.join(p, ".git", "config"), "rb").read()
            if b"[xandikos]" in txt and b"type" in txt:
                return True
        except OSError:
            pass
        if bare:
            r = git(p, "cat-file", "-p", "HEAD:.xandikos", check=False)
            return r.returncode == 0 and b"type" in r.stdout
        try:
            return b"type" in open(os.path.join(p, ".xandikos"), "rb").read()
        except OSError:
            return False

    def _repo_fingerprint(self, p):
        fp = []
        for root, dirs, files in os.walk(p):
            dirs.sort()
            for f in sorted(files):
                fn = os.path.join(root, f)
                try:
                    st = os.lstat(fn)
                except OSError:
                    continue
                # loose objects are content-addressed; reads re-touch them (utime)
                mt = 0 if "/objects/" in fn else st.st_mtime_ns
                fp.append((fn, st.st_size, mt, st.st_ino))
        return tuple(fp)

    def _audit_git(self, c, members):
        p = self.world.fspath(self.slots[c])
        if os.path.isdir(p):
            fp = (self._repo_fingerprint(p), c in self.locked)
            cached = self._git_cache.get(c)
            if cached is not None and cached[0] == fp:
                import copy
                return copy.deepcopy(cached[1])
            info = self._audit_git_uncached(c, members, p)
            import copy
            self._git_cache[c] = (fp, copy.deepcopy(info))
            return info
        return self._audit_git_uncached(c, members, p)

    def _audit_git_uncached(self, c, members, p):
        try:
            return self._audit_git_cli(c, members, p)
        except (RuntimeError, ValueError, IndexError) as exc:
            # the git tools cannot read the repository: that is an observation (C09), not a
            # failure of the machinery
            return {"bare": False, "log": [], "tree": {}, "clean": False, "fsck": False, "cfg": 0,
                    "linear": False, "skipped": False, "typed": self._typed(c),
                    "status": ("git tools fail: %s" % exc)[:200]}

    def _audit_git_cli(self, c, members, p):
        bare = not os.path.isdir(os.path.join(p, ".git"))
        info = {"bare": bare, "log": [], "tree": {}, "clean": True, "fsck": True, "cfg": 0,
                "linear": True, "skipped": False, "status": "", "typed": False}
        if not os.path.isdir(p):
            return info
        head = git(p, "rev-parse", "--verify", "-q", "HEAD", check=False)
        if head.returncode == 0:
            # all commits reachable from HEAD with parents, oldest first
            out = git(p, "rev-list", "--parents", "--reverse", "HEAD", "--").stdout.decode().split("\n")
            prev = None
            for ln in out:
                f = ln.split()
                if not f:
                    continue
                if (prev is None and len(f) != 1) or (prev is not None and f[1:] != [prev]):
                    info["linear"] = False
                prev = f[0]
                info["log"].append(self.K(f[0]))
            ls = git(p, "ls-tree", "-r", "-z", "HEAD", "--").stdout.split(b"\0")
            ents = []
            for ent in ls:
                if not ent:
                    continue
                meta, _, name = ent.partition(b"\t")
                ents.append((meta.split()[2].decode(), name))
            blobs = {}
            if ents:
                raw = git(p, "cat-file", "--batch",
                          input=("\n".join(sha for sha, _ in ents) + "\n").encode()).stdout
                pos = 0
                for sha, _ in ents:
                    nl = raw.index(b"\n", pos)
                    hdr = raw[pos:nl].split()
                    size = int(hdr[2])
                    blobs[sha] = raw[nl + 1:nl + 1 + size]
                    pos = nl + 1 + size + 1
            for sha, name in ents:
                blob = blobs[sha]
                nm = name.decode("utf-8", "replace")
                if nm == ".xandikos":
                    info["cfg"] = self.X(blob)
                    if b"type" in blob:
                        info["typed"] = True
                else:
                    info["tree"][nm] = self.X(blob)
        try:
            cfgp = os.path.join(p, "config") if bare else os.path.join(p, ".git", "config")
            txt = open(cfgp, "rb").read()
            if b"[xandikos]" in txt and b"type" in txt:
                info["typed"] = True
        except OSError:
            pass
        if not bare:
            st = git(p, "status", "--porcelain", check=False)
            info["clean"] = (st.returncode == 0 and st.stdout.strip() == b"") or \
                (c in self.locked and st.stdout.strip() == b"")
            info["status"] = st.stdout.decode("utf-8", "replace")[:200]
        fs = git(p, "fsck", "--strict", "--no-dangling", check=False)
        info["fsck"] = fs.returncode == 0
        return info

    # -- output ----------------------------------------------------------------
    def trace(self, tid):
        nb = len(self.B)
        bodies = [self.battr.get(i, {"valid": False, "uid": "", "kind": "other"})
                  for i in range(1, nb + 1)]
        return {"id": tid, "cfg": self.cfg, "bodies": bodies, "init": self.init_audit,
                "events": self.events}
