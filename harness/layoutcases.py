"""C16, listings: builds the collection layouts enumerated from Layout.tla on a real server
(MKCOL / extended MKCOL / MKCALENDAR, PUT) and records what PROPFIND Depth 0 / 1 lists at
every collection of the layout.  Every listed href is dereferenced as sent; a resource is
identified by the display name (collections) or UID (files) it was given."""
import re
import urllib.parse

from . import alpha, gamma
from .alpha import DAV
from .world import World

HOME = "/user/calendars/"        # (replaced per run by <principal>calendars/)
NAMES = {"R": "lay", "P": "p#1", "S": "sub#b", "C": "c d", "H": "h%20h", "F": "f x", "G": "g+g"}


def path_of(tree, i):
    by = {n["id"]: n for n in tree}
    segs = []
    n = by[i]
    while True:
        name = NAMES[n["id"]]
        if not n["coll"]:
            parent_kind = by[n["parent"]]["kind"]
            name += ".vcf" if parent_kind == "addressbook" else ".ics"
        segs.append(name)
        if not n["parent"]:
            break
        n = by[n["parent"]]
    return HOME + "/".join(urllib.parse.quote(s) for s in reversed(segs)) + ("/" if by[i]["coll"] else "")


def order(tree):
    by = {n["id"]: n for n in tree}

    def depth(n):
        d = 0
        while n["parent"]:
            n = by[n["parent"]]
            d += 1
        return d
    return sorted(tree, key=lambda n: (depth(n), n["id"]))


def build(w, tree):
    """-> {id: 'ok' | 'refused-<status>'}"""
    made = {}
    by = {n["id"]: n for n in tree}
    for n in order(tree):
        if n["parent"] and made.get(n["parent"]) != "ok":
            made[n["id"]] = "no-parent"
            continue
        p = path_of(tree, n["id"])
        ident = "node-" + n["id"]
        if n["coll"]:
            if n["kind"] == "calendar":
                r = w.request("MKCALENDAR", p)
            elif n["kind"] == "addressbook":
                r = w.request("MKCOL", p, [("Content-Type", "text/xml")], gamma.mkcol_body("addressbook"))
            else:
                r = w.request("MKCOL", p)
            if r.status in range(200, 300):
                w.request("PROPPATCH", p, [("Content-Type", "text/xml")], gamma.proppatch_body([("displayname", ident)]))
        else:
            if by[n["parent"]]["kind"] == "addressbook":
                r = w.request("PUT", p, [("Content-Type", "text/vcard")], gamma.vcard("Node " + n["id"], uid=ident))
            else:
                r = w.request("PUT", p, [("Content-Type", "text/calendar")], gamma.ics_event(ident, "node " + n["id"]))
        made[n["id"]] = "ok" if r.status in range(200, 300) else "refused-%d" % r.status
    return made


def identify(w, href, is_coll):
    """Dereference an emitted href exactly as sent -> node id or '?'."""
    if not href:
        return "?"
    target = urllib.parse.urlsplit(href).path if "://" in href else href
    if is_coll:
        r = w.raw("PROPFIND", target, [("Depth", "0"), ("Content-Type", "text/xml")], gamma.PROPFIND_ALL)
        if r.status != 207:
            return "?"
        try:
            rs, _ = alpha.parse_multistatus(r.body)
        except ValueError:
            return "?"
        dn = rs[0].text(DAV + "displayname") if rs else None
        return dn[5:] if dn and dn.startswith("node-") else "?"
    r = w.raw("GET", target)
    if r.status != 200:
        return "?"
    m = re.search(rb"UID:node-([A-Z])", r.body)
    return m.group(1).decode() if m else "?"


PROPFIND_HREFS = (
    b'<?xml version="1.0" encoding="utf-8"?><D:propfind xmlns:D="DAV:" xmlns:C="urn:ietf:params:xml:ns:caldav" '
    b'xmlns:A="urn:ietf:params:xml:ns:carddav"><D:prop><D:owner/><D:current-user-principal/><D:principal-URL/>'
    b'<D:principal-collection-set/><C:calendar-home-set/><A:addressbook-home-set/>'
    b'<C:calendar-user-address-set/><D:group-membership/><D:resourcetype/>'
    b'</D:prop></D:propfind>')


def property_hrefs(w, target):
    """hrefs inside property values of a Depth 0 PROPFIND -> list of (property, href, verdict).
    (schedule-inbox-URL / schedule-outbox-URL are left out: the inbox exists only in deployments
    started with --defaults, scheduling itself is not implemented.)"""
    out = []
    r = w.request("PROPFIND", target, [("Depth", "0"), ("Content-Type", "text/xml")], PROPFIND_HREFS)
    if r.status != 207:
        return out
    rs, _ = alpha.parse_multistatus(r.body)
    for x in rs:
        for tag, (st, el) in x.props.items():
            if st != 200:
                continue
            for h in el.iter(DAV + "href"):
                href = h.text or ""
                if re.match(r"^[a-zA-Z][a-zA-Z0-9+.-]*:", href) and not href.startswith("http"):
                    continue          # mailto: and friends
                t = urllib.parse.urlsplit(href).path if "://" in href else href
                g = w.raw("PROPFIND", t, [("Depth", "0"), ("Content-Type", "text/xml")], gamma.PROPFIND_ALL)
                ok = g.status == 207
                if ok:
                    try:
                        rr, _ = alpha.parse_multistatus(g.body)
                        ok = len(rr) == 1 and (rr[0].status is None or rr[0].status < 400)
                    except ValueError:
                        ok = False
                out.append((tag.rsplit("}", 1)[-1], href, "ok" if ok else "does-not-resolve(%d)" % g.status))
    return out


def run_layout(tree, frontend, prefix):
    global HOME
    from .hrefcases import PRINCIPAL_FOR
    principal = PRINCIPAL_FOR.get(prefix, "/user/")
    HOME = principal + "calendars/"
    w = World(frontend=frontend, prefix=prefix, principal=principal)
    recs = []
    try:
        made = build(w, tree)
        live = [n for n in tree if made[n["id"]] == "ok"]      # what the server agreed to create
        refused = sorted("%s:%s" % (n["kind"] + "-in-" + next(m["kind"] for m in tree if m["id"] == n["parent"]), made[n["id"]])
                         for n in tree if made[n["id"]] not in ("ok", "no-parent"))
        idcache = {}

        def ident_of(href, is_coll):
            key = (href, is_coll)
            if key not in idcache:
                idcache[key] = identify(w, href, is_coll)
            return idcache[key]

        explicit = gamma.PROPFIND_ALL.replace(b"<D:resourcetype/>", b"<D:resourcetype/><D:add-member/>")
        # the same listing asked for in the four ways RFC 4918 9.1 offers
        BODIES = [("prop", explicit),
                  ("allprop", b'<?xml version="1.0"?><D:propfind xmlns:D="DAV:"><D:allprop/></D:propfind>'),
                  ("nobody", None),
                  ("propname", b'<?xml version="1.0"?><D:propfind xmlns:D="DAV:"><D:propname/></D:propfind>')]
        for n in live:
            if not n["coll"]:
                continue
            for depth in (0, 1):
              for (bname, pbody) in BODIES:
                hdrs = [("Depth", str(depth))] + ([("Content-Type", "text/xml")] if pbody is not None else [])
                r = w.request("PROPFIND", path_of(tree, n["id"]), hdrs, pbody)
                got, slash = [], True
                selfbad = set()
                if r.status == 207:
                    rs, _ = alpha.parse_multistatus(r.body)
                    for x in rs:
                        rt = x.props.get(DAV + "resourcetype")
                        if bname == "propname" or rt is None:
                            # no values: whether it is a collection shows in the href (and is checked
                            # by the other three forms)
                            is_coll = (x.href or "").endswith("/")
                        else:
                            is_coll = rt[0] == 200 and any(ch.tag == DAV + "collection" for ch in rt[1])
                            if is_coll and not (x.href or "").endswith("/"):
                                slash = False
                        ident = ident_of(x.href, is_coll)
                        got.append(ident)
                        # a property whose value refers to the described resource itself (add-member:
                        # where to POST new members, RFC 5995) must address that resource, also
                        # when the resource is described as a member of a Depth 1 listing
                        am = x.prop_ok(DAV + "add-member") if bname != "propname" else None
                        if is_coll and am is not None:
                            for h in am.iter(DAV + "href"):
                                if ident_of(urllib.parse.urljoin(x.href or "", h.text or ""), True) != ident:
                                    selfbad.add("add-member")
                bad = sorted(selfbad)
                if depth == 0 and bname == "prop":
                    bad = sorted(selfbad | {"%s" % p for (p, h, v) in property_hrefs(w, path_of(tree, n["id"])) if v != "ok"})
                recs.append({"tree": live, "at": n["id"], "depth": depth, "body": bname, "got": got, "slash": slash,
                             "badprops": bad, "status": r.status, "frontend": frontend,
                             "prefix": prefix.strip("/") or "root"})
        # second phase: a name changes its kind (the file is deleted and a collection of the same
        # name created; a leaf collection is deleted and a file of the same name uploaded) while
        # the server keeps running - the listing of the parent follows
        by = {n["id"]: n for n in live}
        flips = []
        if "F" in by:
            flips.append(("F", True))
        for leaf in ("H", "C"):
            if leaf in by and not any(n["parent"] == leaf for n in live):
                flips.append((leaf, False))
                break
        tree2 = [dict(n) for n in live]
        done = []
        for (i, tocoll) in flips:
            old = path_of(live, i)
            parent_kind = by[by[i]["parent"]]["kind"]
            if w.request("DELETE", old).status not in range(200, 300):
                continue
            if tocoll:
                newp = old + "/"
                r = w.request("MKCOL", newp)
                if r.status in range(200, 300):
                    w.request("PROPPATCH", newp, [("Content-Type", "text/xml")],
                              gamma.proppatch_body([("displayname", "node-" + i)]))
            else:
                newp = old.rstrip("/")
                if parent_kind == "addressbook":
                    r = w.request("PUT", newp, [("Content-Type", "text/vcard")], gamma.vcard("Node " + i, uid="node-" + i))
                else:
                    r = w.request("PUT", newp, [("Content-Type", "text/calendar")], gamma.ics_event("node-" + i, "node " + i))
            for n in tree2:
                if n["id"] == i:
                    if r.status in range(200, 300):
                        n["coll"] = tocoll
                        n["kind"] = "plain" if tocoll else "file"
                        done.append(by[i]["parent"])
                    else:
                        n["gone"] = True
        tree2 = [n for n in tree2 if not n.get("gone")]
        idcache.clear()
        for parent in sorted(set(done)):
            pp = path_of(live, parent)
            r = w.request("PROPFIND", pp, [("Depth", "1"), ("Content-Type", "text/xml")], explicit)
            got, slash = [], True
            if r.status == 207:
                rs, _ = alpha.parse_multistatus(r.body)
                for x in rs:
                    rt = x.prop_ok(DAV + "resourcetype")
                    is_coll = rt is not None and any(ch.tag == DAV + "collection" for ch in rt)
                    if is_coll and not (x.href or "").endswith("/"):
                        slash = False
                    got.append(ident_of(x.href, is_coll))
            recs.append({"tree": tree2, "at": parent, "depth": 1, "body": "prop-after-kind-change", "got": got,
                         "slash": slash, "badprops": [], "status": r.status, "frontend": frontend,
                         "prefix": prefix.strip("/") or "root"})
        # the principal and the home sets: hrefs in their property values
        for target, ident in ((principal, "principal"), (HOME, "home")):
            bad = sorted({p for (p, h, v) in property_hrefs(w, target) if v != "ok"})
            if bad:
                recs.append({"tree": live, "at": "R", "depth": 0, "body": "prop", "got": ["R"], "slash": True,
                             "badprops": [ident + ":" + b for b in bad], "status": 207,
                             "frontend": frontend, "prefix": prefix.strip("/") or "root"})
        return recs, refused
    finally:
        w.close()
