"""Serves xandikos.wsgi:app (configured through the environment variables the module
reads) behind WellknownRedirector with wsgiref, mounted at a route prefix."""
import os
import sys
from wsgiref.simple_server import make_server, WSGIRequestHandler

from harness import compat  # noqa: F401


class Quiet(WSGIRequestHandler):
    def log_message(self, *a):
        pass


def main():
    port = int(sys.argv[1])
    prefix = sys.argv[2]
    from xandikos.wsgi import app
    from xandikos.wsgi_helpers import WellknownRedirector
    inner = WellknownRedirector(app, prefix)
    script = prefix.rstrip("/")

    import io

    def mounted(environ, start_response):
        # production WSGI servers hand the application an input stream that ends after
        # Content-Length octets; wsgiref passes the raw socket file
        try:
            n = int(environ.get("CONTENT_LENGTH") or 0)
        except ValueError:
            n = 0
        environ["wsgi.input"] = io.BytesIO(environ["wsgi.input"].read(n) if n else b"")
        path = environ.get("PATH_INFO", "")
        full = environ.get("SCRIPT_NAME", "") + path
        if full.startswith("/.well-known/"):
            return inner(environ, start_response)
        if script and not (path == script or path.startswith(script + "/")):
            start_response("404 Not Found", [("Content-Type", "text/plain")])
            return [b"outside the mount point"]
        environ["SCRIPT_NAME"] = script
        environ["PATH_INFO"] = path[len(script):]
        return inner(environ, start_response)

    make_server("127.0.0.1", port, mounted, handler_class=Quiet).serve_forever()


if __name__ == "__main__":
    main()
