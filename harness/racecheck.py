"""C05: concurrent writes behave as if executed one after another.

 1. TLC explores all interleavings of two writers in the implementation-shaped
    model StoreProto (level B) and reports which race classes the *design* admits.
 2. The real stores are run under systematically enumerated interleavings of the
    file-system steps of two operations (all preemption points; thorough: two
    preemptions), in threads sharing one store object and with separate store
    objects on one directory.
 3. Every run is judged by TLC against Lin.tla (LinTrace.tla).
"""
import itertools
import json
import logging
import multiprocessing
import os
import random
import re
import time
import traceback
from concurrent.futures import ThreadPoolExecutor

from . import common, tlc


def op_alphabet():
    puts = [{"t": "put", "n": n, "b": b, "cond": c} for n in ("a", "b") for b in (2, 3, 5) for c in (0, 1)]
    dels = [{"t": "del", "n": "a", "b": 0, "cond": c} for c in (0, 1)]
    # a client storing again what the collection already holds under that name (content 1)
    same = [{"t": "put", "n": "a", "b": 1, "cond": c} for c in (0, 1)]
    return puts + dels + same


def core_pairs():
    """Pairs that every run includes, whatever the sample: an unchanged re-upload overtaken by a
    change / a removal of the same member, and the reverse orders."""
    again = {"t": "put", "n": "a", "b": 1, "cond": 0}
    change = {"t": "put", "n": "a", "b": 2, "cond": 0}
    remove = {"t": "del", "n": "a", "b": 0, "cond": 0}
    cchange = {"t": "put", "n": "a", "b": 3, "cond": 1}
    new1 = {"t": "put", "n": "b", "b": 3, "cond": 0}      # two creations of one new name
    new2 = {"t": "put", "n": "b", "b": 5, "cond": 0}
    return [(again, change), (again, remove), (change, again), (remove, again), (again, cchange), (cchange, again),
            (new1, new2)]


READ = {"t": "read", "n": "", "b": 0, "cond": 0}


def _quiet():
    logging.disable(logging.CRITICAL)
    try:
        devnull = open(os.devnull, "w")
        os.dup2(devnull.fileno(), 2)
    except OSError:
        pass


def _work(job):
    _quiet()
    from . import racedriver as rd
    try:
        tmpl = rd.Template(job["kind"], {"a": 1}, idle=job.get("idle", False))
        out = []
        try:
            for (opa, opb) in job["pairs"]:
                na, ga = rd.count_gates(tmpl, opa)
                nb, _ = rd.count_gates(tmpl, opb)
                plans = [[("A", i), ("B", None)] for i in range(0, na + 1)]
                # two writers of one name: wherever the first one is overtaken before it holds
                # the lock, the state left behind is also probed by a delete that is conditional
                # on the etag the collection reports afterwards (and by an unconditional one)
                extra = []
                if opa.get("n") and opa.get("n") == opb.get("n"):
                    lockgate = "LockIndex" if job["kind"] == "tree" else "LockRef"
                    lockpos = ga.index(lockgate) if lockgate in ga else len(ga)
                    for i in range(1, lockpos + 1):
                        for cond in (-1, 0):
                            extra.append(([("A", i), ("B", None)],
                                          {"t": "del", "n": opa["n"], "b": 0, "cond": cond}))
                    # ... and where the first one has made its checks, the second one is inside its
                    # critical section (file written / objects added), and the first one then runs
                    # into the held lock and is refused: its way out must not touch anything
                    if lockgate in ga and lockgate in (rd.count_gates(tmpl, opb)[1]):
                        gb = rd.count_gates(tmpl, opb)[1]
                        inside = [k + 1 for k, g in enumerate(gb) if g in ("WriteFile", "Remove", "AddObj", "MoveRef")]
                        for j in sorted(set(inside))[:4]:
                            extra.append(([("A", ga.index(lockgate)), ("B", j), ("A", None)],
                                          {"t": "del", "n": opa["n"], "b": 0, "cond": 0}))
                if job["deep"]:
                    rng = random.Random(job["seed"])
                    for _ in range(job["deep"]):
                        i = rng.randint(0, na)
                        j = rng.randint(1, max(1, nb))
                        plans.append([("A", i), ("B", j), ("A", None)])
                for pi, plan in enumerate(plans):
                    # every third run is followed by a put of a third name carrying the content
                    # (hence the UID) one of the overlapped puts used
                    opc = None
                    if pi % 3 == 2:
                        b = [o["b"] for o in (opa, opb) if o["t"] == "put"]
                        opc = {"t": "put", "n": "c", "b": b[pi % len(b)] if b else 5, "cond": 0}
                    elif pi % 3 == 1 and (opa, opb)[(pi // 3) % 2]["n"]:
                        # ... every third one by a delete of a name the overlapped pair wrote to
                        # (every other one conditional on the etag the collection reports for it)
                        opc = {"t": "del", "n": (opa, opb)[(pi // 3) % 2]["n"], "b": 0,
                               "cond": -1 if (pi // 6) % 2 else 0}
                    r = rd.run_schedule(tmpl, opa, opb, plan, shared=job["shared"], opc=opc)
                    ts = sorted([opa["t"], opb["t"]])
                    ts = [{"read": "read"}.get(x, x) for x in ts]
                    r["pair"] = "%s-%s" % (ts[0], ts[1])
                    out.append(r)
                for (plan, opc) in extra:
                    r = rd.run_schedule(tmpl, opa, opb, plan, shared=job["shared"], opc=opc)
                    ts = sorted([opa["t"], opb["t"]])
                    r["pair"] = "%s-%s" % (ts[0], ts[1])
                    out.append(r)
        finally:
            tmpl.close()
        return {"ok": True, "runs": out}
    except Exception:
        return {"ok": False, "error": traceback.format_exc()}


def _work_witness(job):
    """The recorded witness schedule of one listed finding, re-run as it stands."""
    _quiet()
    from . import racedriver as rd
    try:
        wt = job["witness"]
        tmpl = rd.Template(wt["kind"], {"a": 1})
        try:
            plan = [(w, None if n == -1 else n) for (w, n) in wt["plan"]]
            oc = wt["ops"].get("C")
            r = rd.run_schedule(tmpl, wt["ops"]["A"], wt["ops"]["B"], plan, shared=wt["shared"],
                                opc=oc if oc and oc.get("t") != "none" else None)
            r["pair"] = wt["pair"]
            r["witness_of"] = job["dev"]
        finally:
            tmpl.close()
        return {"ok": True, "runs": [r]}
    except Exception:
        return {"ok": False, "error": traceback.format_exc()}


def _work_seq(job):
    """Histories without overlap through two long-lived store objects (two processes in turn)."""
    _quiet()
    from . import racedriver as rd
    try:
        rng = random.Random(job["seed"])
        tmpl = rd.Template(job["kind"], {"a": 1})
        out = []
        try:
            for _ in range(job["n"]):
                steps = []
                for _k in range(rng.randint(3, 7)):
                    if rng.random() < 0.7:
                        op = {"t": "put", "n": rng.choice("aabbc"), "b": rng.choice([1, 2, 2, 3, 5]),
                              "cond": rng.choice([0, 0, 0, 1, 2, 3])}
                    else:
                        op = {"t": "del", "n": rng.choice("abc"), "b": 0, "cond": rng.choice([0, 0, 1, 2])}
                    steps.append((rng.randint(0, 1), op))
                r = rd.run_sequential(tmpl, steps)
                r["pair"] = "seq"
                out.append(r)
        finally:
            tmpl.close()
        return {"ok": True, "runs": out}
    except Exception:
        return {"ok": False, "error": traceback.format_exc()}


def _work_http(job):
    _quiet()
    from . import httprace
    from . import racedriver as rd
    try:
        out = []
        for (opa, opb) in job["pairs"]:
            tmpl = rd.Template("tree", {"a": 1})
            try:
                na, _ = rd.count_gates(tmpl, opa)
            finally:
                tmpl.close()
            for i in range(0, min(na, job.get("maxi", na)) + 1, job["stride"]):
                out.append(httprace.run_http_schedule(opa, opb, [("A", i), ("B", None)]))
        return {"ok": True, "runs": out}
    except Exception:
        return {"ok": False, "error": traceback.format_exc()}


def judge(runs, devs):
    from . import racedriver as rd
    uid = [0] * 6
    for b, u in rd.UID.items():
        uid[b - 1] = u
    batches = [runs[i:i + 400] for i in range(0, len(runs), 400)]
    const = {"EnabledDevs": tlc.tla_set(devs)}

    def one(b):
        return tlc.validate_traces("LinTrace", "LinTrace.cfg", {"uid": uid, "runs": b}, constants=const)

    res = {}
    states = 0
    with ThreadPoolExecutor(max_workers=8) as ex:
        for r, stat in ex.map(one, batches):
            for v in r:
                res[v["id"]] = v
            states += stat["distinct"]
    return res, states


def model_race_classes(kind, timeout=1500):
    """All interleavings of two writers in StoreProto: is the design linearizable?"""
    cfg = ("SPECIFICATION Spec\nCONSTANTS\n  Kind = \"%s\"\n  Proc = {\"A\", \"B\"}\n  Mode = \"race\"\n"
           "INVARIANT Linearizable\nCHECK_DEADLOCK FALSE\n" % kind)
    res = tlc.run_tlc("StoreProtoMC", cfg_text=cfg, workers=16, timeout=timeout)
    violated = "Invariant Linearizable is violated" in res["out"]
    completed = "Model checking completed" in res["out"]
    if not violated and not completed:
        common.machinery_failure("TLC on StoreProtoMC (race, %s) failed:\n%s" % (kind, res["out"][-3000:]))
    return {"kind": kind, "design_linearizable": not violated, "states": res["states"],
            "distinct": res["distinct"]}


def conditional_overlap(rep, tier, seed):
    """Used by C03: two HTTP requests to a real server, at least one conditional, the second one
    running to completion while the first is parked at one of its first file-system steps (so
    also between the handler's evaluation of If-Match and the store's own check).  A conditional
    request that is executed although the resource no longer has a listed etag - and that is not
    one of the listed race classes of C05 - is a violation of C03."""
    devs = common.open_devs("Lin")
    P = lambda n, b, c: {"t": "put", "n": n, "b": b, "cond": c}      # noqa: E731
    D = lambda c: {"t": "del", "n": "a", "b": 0, "cond": c}          # noqa: E731
    pairs = [(P("a", 3, 1), P("a", 2, 1)), (P("a", 3, 1), P("a", 2, 0)), (P("a", 2, 1), D(0)),
             (D(1), P("a", 2, 0)), (P("a", 3, 1), D(1)), (D(1), P("a", 3, 1))]
    if tier != "quick":
        pairs = pairs + [(b, a) for (a, b) in pairs]
    # the first request is parked at its first (or second) file-system step: after the handler
    # looked at the headers, before the store evaluates the condition itself under its lock
    hjobs = [{"pairs": [p], "stride": 1, "maxi": 1} for p in pairs]
    with multiprocessing.get_context("fork").Pool(12) as pool:
        outs = pool.map(_work_http, hjobs, chunksize=1)
    runs = []
    for o in outs:
        if not o["ok"]:
            common.machinery_failure("harness exception:\n" + o["error"])
        runs.extend(o["runs"])
    for i, r in enumerate(runs):
        r["id"] = i + 1
    verdicts, _ = judge(runs, devs)
    for r in runs:
        v = verdicts[r["id"]]
        if v["k"] == "viol":
            rep.violation("%s: overlapping requests through HTTP: %s ops=%s results=%s final=%s plan=%s" % (
                v["dev"], v["clause"], json.dumps(r["ops"]), json.dumps(r["res"]), json.dumps(r["final"]),
                json.dumps(r["plan"])), {"property": rep.prop, "verdict": v, "run": r})
    rep.coverage["conditional_overlap_runs"] = len(runs)
    return len(runs)


def reader_overlap(rep, tier, seed):
    """Used by C02: a full read of the collection overlapping a write (every preemption point of
    the writer) must not leave the long-lived store object serving stale etags / bytes."""
    ops = op_alphabet()
    rng = random.Random(seed + 77)
    sel = ops if tier != "quick" else rng.sample(ops, 8)
    jobs = []
    for kind in ("tree", "bare"):
        for i in range(0, len(sel), 2):
            jobs.append({"kind": kind, "shared": True, "pairs": [(o, READ) for o in sel[i:i + 2]],
                         "deep": 0, "seed": rng.randrange(1 << 30)})
    with multiprocessing.get_context("fork").Pool(15) as pool:
        outs = pool.map(_work, jobs, chunksize=1)
    runs = []
    for o in outs:
        if not o["ok"]:
            common.machinery_failure("harness exception:\n" + o["error"])
        runs.extend(o["runs"])
    for i, r in enumerate(runs):
        r["id"] = i + 1
    verdicts, tstates = judge(runs, {})
    for r in runs:
        v = verdicts[r["id"]]
        if v["k"] == "viol":
            rep.violation("%s: a read overlapping a write: %s ops=%s results=%s served-afterwards-equals-disk=%s plan=%s" % (
                v["dev"], v["clause"], json.dumps(r["ops"]), json.dumps(r["res"]), r["views_ok"], json.dumps(r["plan"])),
                {"property": rep.prop, "verdict": v, "run": r})
    rep.coverage["reader_overlap_runs"] = len(runs)
    return len(runs)


def run(prop, tier, seed, replay=None):
    rep = common.Report(prop, tier, seed, "model_checking")
    devs = common.open_devs("Lin")
    quick = tier == "quick"
    if replay:
        r = json.load(open(replay))
        from . import racedriver as rd
        _quiet()
        tmpl = rd.Template(r["run"]["kind"], {"a": 1})
        try:
            plan = [(w, None if n == -1 else n) for (w, n) in r["run"]["plan"]]
            oc = r["run"]["ops"].get("C")
            got = rd.run_schedule(tmpl, r["run"]["ops"]["A"], r["run"]["ops"]["B"], plan, shared=("late" if r["run"].get("lateopen") else r["run"]["shared"]),
                                  opc=oc if oc and oc.get("t") != "none" else None)
            got["pair"] = r["run"]["pair"]
            got["id"] = 1
        finally:
            tmpl.close()
        runs = [got]
        models = []
    else:
        models = [model_race_classes(k) for k in ("tree", "bare")]
        ops = op_alphabet()
        pairs = list(itertools.product(ops, ops))
        rng = random.Random(seed)
        if quick:
            # every pair of kinds is kept; within a kind pair a sample of the concrete arguments
            rng.shuffle(pairs)
            pairs = core_pairs() + [p for p in pairs if p not in core_pairs()][:57]
        # a reader overlapping a writer: every write operation with a concurrent full read
        pairs += [(o, READ) for o in (ops if not quick else rng.sample(ops, 8))]
        jobs = []
        for kind in ("tree", "bare"):
            for shared in (True, False, "late"):
                chunk = 5
                # (the late-open variant on a part of the pairs in the quick tier)
                use = pairs if (shared != "late" or not quick) else pairs[:30]
                for i in range(0, len(use), chunk):
                    # (every other chunk on a collection that has been idle for an hour)
                    jobs.append({"kind": kind, "shared": shared, "pairs": use[i:i + chunk],
                                 "deep": 0 if quick else 12, "seed": rng.randrange(1 << 30),
                                 "idle": (i // chunk) % 2 == 1})
        # the same through HTTP: requests to a real aiohttp server whose updates run in its
        # thread pool, gated at the same file-system steps
        hp = [(a, b) for (a, b) in pairs if a["t"] != "read" and b["t"] != "read"]
        rng.shuffle(hp)
        hp = hp[:6] if quick else hp[:60]
        hjobs = [{"pairs": [p], "stride": 2 if quick else 1} for p in hp]
        # the witness schedule of every listed (open) finding, re-run as recorded
        wjobs = [{"dev": d, "witness": e["witness"]} for d, e in sorted(devs.items()) if e.get("witness")]
        # no overlap at all, two store objects in turn (caches of one process vs. writes of the other)
        sjobs = [{"kind": kind, "n": 60 if quick else 400, "seed": rng.randrange(1 << 30)}
                 for kind in ("tree", "bare") for _ in range(4)]
        with multiprocessing.get_context("fork").Pool(15) as pool:
            outs = pool.map(_work, jobs, chunksize=1)
            houts = pool.map(_work_http, hjobs, chunksize=1)
            wouts = pool.map(_work_witness, wjobs, chunksize=1)
            souts = pool.map(_work_seq, sjobs, chunksize=1)
        runs = []
        for o in outs + houts + wouts + souts:
            if not o["ok"]:
                common.machinery_failure("harness exception:\n" + o["error"])
            runs.extend(o["runs"])
        for i, r in enumerate(runs):
            r["id"] = i + 1
    verdicts, tstates = judge(runs, devs)
    if set(verdicts) != {r["id"] for r in runs}:
        common.machinery_failure("TLC did not judge every run")
    classes = {}
    nontrivial = set()
    samples = []
    for r in runs:
        v = verdicts[r["id"]]
        if r["pair"] == "seq":
            classes.setdefault((r["kind"], "seq-" + v["clause"]), 0)
            classes[(r["kind"], "seq-" + v["clause"])] += 1
            if v["k"] == "viol":
                rep.violation("%s: %s steps=%s results=%s final=%s" % (
                    v["dev"], v["clause"], json.dumps(list(zip(r["who"], r["ops"]))), json.dumps(r["res"]),
                    json.dumps(r["final"])), {"property": prop, "verdict": v, "run": r})
            elif v["k"] == "known":
                rep.known_finding(v["dev"], devs.get(v["dev"], {}).get("what", v["dev"]))
            continue
        key = (r["kind"], r["pair"], "same" if r["ops"]["A"]["n"] == r["ops"]["B"]["n"] else "diff",
               r["res"]["A"], r["res"]["B"])
        nontrivial.add(key + (json.dumps(r["final"], sort_keys=True),))
        classes.setdefault((r["kind"], v["clause"]), 0)
        classes[(r["kind"], v["clause"])] += 1
        if v["k"] == "viol":
            rep.violation("%s: %s ops=%s results=%s final=%s schedule plan=%s" % (
                v["dev"], v["clause"], json.dumps(r["ops"]), json.dumps(r["res"]),
                json.dumps(r["final"]), json.dumps(r["plan"])), {"property": prop, "verdict": v, "run": r})
        elif v["k"] == "known":
            rep.known_finding(v["dev"], devs.get(v["dev"], {}).get("what", v["dev"]))
        elif v["k"] == "note":
            rep.note("run %s: %s" % (r["id"], v["clause"]))
        if v["errors"]:
            rep.note("lock contention / a lost race surfaced as an exception (HTTP 500) instead of a 412/423 "
                     "answer: %s%s %s" % (r["kind"], " via HTTP" if r.get("level") == "http" else "", json.dumps(r["res"])))
    rep.notes = sorted(set(rep.notes))[:12]
    seen_devs = {verdicts[r["id"]]["dev"] for r in runs if verdicts[r["id"]]["k"] == "known"}
    if not replay:
        for r in runs:
            d = r.get("witness_of")
            if d and verdicts[r["id"]]["dev"] != d:
                rep.note("the witness schedule of listed finding %s no longer shows it (verdict now: %s)"
                         % (d, verdicts[r["id"]]["clause"]))
        first = {}
        for r in runs:
            v = verdicts[r["id"]]
            if v["k"] in ("known", "viol") and v["dev"] not in first and r.get("level") != "http" and r["pair"] != "seq":
                first[v["dev"]] = {"kind": r["kind"], "shared": "late" if r.get("lateopen") else r["shared"],
                                   "ops": r["ops"], "plan": r["plan"],
                                   "pair": r["pair"]}
        os.makedirs(os.path.join(common.OUT_DIR, "witness"), exist_ok=True)
        json.dump(first, open(os.path.join(common.OUT_DIR, "witness", "Lin.json"), "w"), indent=1, sort_keys=True)
    for r in runs[:3]:
        samples.append({k: r[k] for k in ("kind", "shared", "ops", "plan", "res", "final")}
                       | {"gates": r["sched"][:40]})
    rep.coverage.update({
        "states": sum(m["distinct"] for m in models) + tstates,
        "transitions": sum(m["states"] for m in models) + len(runs),
        "traces_validated_against_impl": len(runs),
        "evaluations": len(runs),
        "http_level_runs": len([r for r in runs if r.get("level") == "http"]),
        "distinct_nontrivial": len(nontrivial),
        "rule": "one evaluation = one real two-writer execution under a prescribed interleaving of file-system "
                "steps; distinct = distinct (store kind, op kinds, same/different name, results, final state)",
        "samples": samples,
        "model": models,
        "verdict_classes": {"%s/%s" % k: n for k, n in sorted(classes.items())},
        "deviation_ids_seen": sorted({verdicts[r["id"]]["dev"] for r in runs if verdicts[r["id"]]["k"] in ("viol", "known")}),
        "exhaustive": False,
    })
    rep.assumptions += [
        "preemption only at file-system events (audit hook gates); races inside pure-Python sections are not scheduled",
        "errors raised by dulwich under ref-lock contention (CommitError, FileLocked) are treated like a locked refusal if they had no effect",
        "harness/compat.py library shims",
    ]
    return rep.finish()
