"""C05 through the aiohttp front end: two HTTP requests whose store updates run in the
server's thread pool (web.py: to_thread) are interleaved at file-system-step granularity.
The gates are the same audit-hook gates as in sched.py, applied to the executor threads
of the real server; results are HTTP answers, the final state is read by a fresh store."""
import os
import threading
import time

from . import compat  # noqa: F401
from . import alpha, sched
from . import racedriver as rd
from .world import World


class HttpScheduler(sched.Scheduler):
    """Maps the server's executor threads to requests: the next unmapped executor thread that
    reaches a gate belongs to the request the controller started last."""

    def __init__(self, root):
        super().__init__(root, 2)
        self.expect = None

    def on_event(self, event, paths, write):
        tid = threading.get_ident()
        if tid not in self.tid2w:
            name = threading.current_thread().name
            if not name.startswith("asyncio_") or self.expect is None or self.free_run:
                return
            if not self.relevant(paths):
                return
            with self.cv:
                if self.expect is not None and self.expect not in self.tid2w.values():
                    self.tid2w[tid] = self.expect
                else:
                    return
        super().on_event(event, paths, write)

    def request(self, w, fn):
        """Run fn (a blocking HTTP request) in a client thread as worker w."""
        self.expect = w
        self.state[w] = "running"
        self.permit[w] = 0

        def body():
            try:
                self.results[w] = ("ok", fn())
            except BaseException as exc:   # noqa
                self.results[w] = ("exc", exc)
            finally:
                with self.cv:
                    self.state[w] = "done"
                    for t, x in list(self.tid2w.items()):
                        if x == w:
                            del self.tid2w[t]
                    self.cv.notify_all()
        t = threading.Thread(target=body, daemon=True)
        t.start()
        return t


def answer(resp, want_etag=None, flags=None, key=None):
    cls, cond = alpha.response_class(resp)
    if cls == "ok":
        if want_etag is not None and flags is not None:
            flags[key] = (resp.header("ETag") or "").strip('"') == want_etag
        return "ok"
    if cls == "precond":
        return "DuplicateUid" if cond == "no-uid-conflict" else "InvalidETag"
    if cls == "notfound":
        return "NoSuchItem"
    if cls == "locked":
        return "Locked"
    return "Error:http%d" % resp.status


def run_http_schedule(opa, opb, plan, etags_cache={}):
    """One aiohttp world, collection /user/calendars/r/ with a.ics = content 1."""
    w = World(frontend="aiohttp", prefix="/")
    try:
        base = "/user/calendars/r/"
        assert w.request("MKCALENDAR", base).status in range(200, 300)
        r = w.request("PUT", base + "a.ics", [("Content-Type", "text/calendar")], rd.CONTENT[1]())
        assert r.status in range(200, 300)
        etags = {1: r.header("ETag")}
        # etags of the other contents: blob ids, computed by a throw-away memory store
        if not etags_cache:
            from xandikos.store.git import BareGitStore
            for b in rd.CONTENT:
                ms = rd._load(BareGitStore.create_memory())
                etags_cache[b] = ms.import_one("x.ics", "text/calendar", [rd.CONTENT[b]()])[1]
        path = w.fspath(base.rstrip("/"))

        flags = {}

        def mk(op, key=None):
            name = base + rd.NAMES[op["n"]]
            hdrs = []
            if op["cond"]:
                hdrs.append(("If-Match", '"%s"' % etags_cache[op["cond"]]))
            if op["t"] == "put":
                data = rd.CONTENT[op["b"]]()
                return lambda: answer(w.request("PUT", name, hdrs + [("Content-Type", "text/calendar")], data),
                                      etags_cache[op["b"]], flags, key)
            return lambda: answer(w.request("DELETE", name, hdrs))

        sc = HttpScheduler(path)
        with sc:
            ta = sc.request("A", mk(opa, "A"))
            sc.wait_parked("A")
            started_b = False
            tb = None
            for (wk, n) in plan:
                if wk == "B" and not started_b:
                    tb = sc.request("B", mk(opb, "B"))
                    started_b = True
                    sc.wait_parked("B")
                if n is None:
                    sc.finish(wk)
                else:
                    sc.step(wk, n)
            if not started_b:
                tb = sc.request("B", mk(opb, "B"))
                sc.wait_parked("B")
            sc.finish("A")
            sc.finish("B")
            if sc.stuck:
                sc.release_all()
            ta.join(10)
            if tb is not None:
                tb.join(10)
        res = {}
        for wk in ("A", "B"):
            r = sc.results.get(wk)
            res[wk] = r[1] if r and r[0] == "ok" else ("Error:" + (type(r[1]).__name__ if r else "stuck"))
        w.stop()

        class T:      # read_final needs kind + etag table
            kind = "tree"
            etags = etags_cache
        final, opens, fsck, clean = rd.read_final(path, T)
        lockgate = "LockIndex"
        MUT = ("LockIndex", "WriteFile", "Remove", "AddObj", "LockRef", "MoveRef", "WriteIndex")
        phase = "none"
        for x, o in (("A", "B"), ("B", "A")):
            idx = [i for i, (y, g) in enumerate(sc.trace) if y == x]
            if not idx:
                continue
            lk = next((i for i in idx if sc.trace[i][1] == lockgate), idx[-1] + 1)
            if any(y == o and g in MUT for (y, g) in sc.trace[idx[0]:lk]):
                phase = "check"
        # the second request's steps are not always attributed to it at this level (they run in
        # the server's thread pool): decide the window from the first request alone - it was
        # overtaken in its check phase iff it was parked after its first step and before taking
        # the index lock
        agates = [g for (y, g) in sc.trace if y == "A"]
        if phase == "none" and plan and plan[0][0] == "A" and plan[0][1] is not None and lockgate in agates \
                and not any(y == "B" for (y, g) in sc.trace):
            # (parked after at least one of its steps and not yet holding the lock)
            if 1 <= plan[0][1] <= agates.index(lockgate):
                phase = "check"
        ts = sorted([opa["t"], opb["t"]])
        return {"kind": "tree", "shared": True, "init": {"a": 1},
                "ops": {"A": opa, "B": opb, "C": {"t": "none", "n": "", "b": 0, "cond": 0}},
                "res": dict(res, C="none"), "final": final, "mid": final, "views_ok": True,
                "etag_ok": {x: bool(flags.get(x, True)) for x in ("A", "B", "C")},
                "err": {x: res[x].startswith("Error:") for x in res}, "phase": phase,
                "opens": opens, "fsck": fsck, "clean": clean, "stuck": sc.stuck,
                "sched": [[x, g] for (x, g) in sc.trace],
                "plan": [[x, n if n is not None else -1] for (x, n) in plan],
                "pair": "%s-%s" % (ts[0], ts[1]), "level": "http"}
    finally:
        w.close()
