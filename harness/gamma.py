"""Concretisation (gamma): abstract bodies / names / header classes -> bytes."""

PRODID = "-//verif//xandikos-model//EN"


def fold(line: str, width=75):
    raw = line.encode("utf-8")
    if len(raw) <= width:
        return line
    out = []
    cur = b""
    for ch in line:
        e = ch.encode("utf-8")
        if len(cur) + len(e) > width:
            out.append(cur.decode("utf-8"))
            cur = b" " + e
        else:
            cur += e
    out.append(cur.decode("utf-8"))
    return "\r\n".join(out)


def ics_event(uid, summary, dtstart="20200101T100000Z", dtend="20200101T110000Z",
              variant=0, extra=(), comp="VEVENT", calprops=()):
    """A valid VCALENDAR with one component.  variant changes presentation only
    (line endings, property order, folding) - not the canonical content."""
    props = []
    if uid is not None:
        props.append("UID:%s" % uid)
    props.append("DTSTAMP:20200101T000000Z")
    if dtstart:
        props.append("DTSTART:%s" % dtstart)
    if dtend and comp == "VEVENT":
        props.append("DTEND:%s" % dtend)
    props.append("SUMMARY:%s" % summary)
    props.extend(extra)
    if variant == 1:
        props = list(reversed(props))
    # calprops: properties of the VCALENDAR wrapper itself (RFC 7986: UID, NAME, COLOR ...)
    lines = ["BEGIN:VCALENDAR", "VERSION:2.0", "PRODID:%s" % PRODID] + list(calprops) + \
            ["BEGIN:%s" % comp] + props + ["END:%s" % comp, "END:VCALENDAR"]
    if variant == 2:
        # fold every long-ish line early and use LF only
        lines = [ln if len(ln) < 20 else ln[:12] + "\n " + ln[12:] for ln in lines]
        return ("\n".join(lines) + "\n").encode("utf-8")
    return ("\r\n".join(fold(ln) for ln in lines) + "\r\n").encode("utf-8")


def vcard(fn, uid=None, extra=(), variant=0):
    lines = ["BEGIN:VCARD", "VERSION:3.0", "FN:%s" % fn, "N:%s;;;;" % fn]
    if uid:
        lines.append("UID:%s" % uid)
    lines.extend(extra)
    lines.append("END:VCARD")
    return ("\r\n".join(lines) + "\r\n").encode("utf-8")


# DavMC body alphabet -------------------------------------------------------
MODEL_UIDS = {"u1": "model-uid-1@example.com", "u2": "model-uid-2@example.com",
              "u3": "model-uid-3@example.com"}


def model_body(b, variant=0):
    """-> (bytes, content_type) for the DavMC body alphabet."""
    if b == 1:
        return ics_event(MODEL_UIDS["u1"], "Alpha", variant=variant), "text/calendar"
    if b == 2:
        return ics_event(MODEL_UIDS["u1"], "Beta beta", dtstart="20200102T100000Z",
                         dtend="20200102T113000Z", variant=variant), "text/calendar"
    if b == 3:
        return ics_event(MODEL_UIDS["u2"], "Gamma", variant=variant), "text/calendar"
    if b == 4:
        return (b"BEGIN:VCALENDAR\r\nVERSION:2.0\r\nBEGIN:VEVENT\r\nUID:broken\r\n"
                b"SUMMARY:never closed\r\n"), "text/calendar"
    if b == 5:
        return vcard("Ada Lovelace"), "text/vcard"
    if b == 6:
        return vcard("Charles Babbage", extra=("EMAIL;TYPE=work:cb@example.com",)), "text/vcard"
    if b == 7:
        return ics_event(MODEL_UIDS["u3"], "Delta", comp="VTODO", dtend=None,
                         variant=variant), "text/calendar"
    raise KeyError(b)


def content_type_for(name):
    name = name.lower()       # (extensions compare case-insensitively)
    if name.endswith(".ics"):
        return "text/calendar"
    if name.endswith(".vcf"):
        return "text/vcard"
    if name.endswith(".txt"):
        return "text/plain"
    return "application/octet-stream"


def kind_for_ct(ct):
    # parameters (charset, component, version ...) do not change the media type (RFC 7231 3.1.1.1)
    return {"text/calendar": "ics", "text/vcard": "vcf"}.get(ct.split(";")[0].strip().lower(), "other")


# Content-Type spellings real clients send: the media type with zero, one or two parameters
CT_PARAMS = {
    "text/calendar": ["", "; charset=utf-8", ";charset=UTF-8", "; charset=utf-8; component=VEVENT",
                      "; component=VEVENT; charset=utf-8", ";method=PUBLISH;charset=utf-8", " ; charset=utf-8", "!Text/Calendar", "!TEXT/CALENDAR; charset=utf-8"],
    "text/vcard": ["", "; charset=utf-8", ";charset=UTF-8", "; charset=utf-8; version=4.0", "; version=3.0; charset=utf-8", " ;charset=utf-8", "!Text/VCard"],
}


def decorate_ct(rng, ct):
    d = rng.choice(CT_PARAMS.get(ct, [""]))
    return d[1:] if d.startswith("!") else ct + d     # "!" = a complete respelling (media types are case-insensitive)


# XML request bodies ----------------------------------------------------------
PROPFIND_ALL = (
    b'<?xml version="1.0" encoding="utf-8"?>'
    b'<D:propfind xmlns:D="DAV:" xmlns:C="urn:ietf:params:xml:ns:caldav" '
    b'xmlns:A="urn:ietf:params:xml:ns:carddav" xmlns:CS="http://calendarserver.org/ns/" '
    b'xmlns:I="http://apple.com/ns/ical/" xmlns:F="http://inf-it.com/ns/ab/"><D:prop>'
    b'<D:resourcetype/><D:getetag/><D:getctag/><CS:getctag/><D:sync-token/>'
    b'<D:displayname/><C:calendar-description/><A:addressbook-description/>'
    b'<I:calendar-color/><F:addressbook-color/><I:calendar-order/><D:comment/>'
    b'<D:getcontenttype/>'
    b'</D:prop></D:propfind>'
)


def multiget_body(kind, hrefs):
    if kind == "calendar":
        ns, rep, data = "urn:ietf:params:xml:ns:caldav", "calendar-multiget", "calendar-data"
    else:
        ns, rep, data = "urn:ietf:params:xml:ns:carddav", "addressbook-multiget", "address-data"
    from xml.sax.saxutils import escape
    hs = "".join("<D:href>%s</D:href>" % escape(h) for h in hrefs)
    return ('<?xml version="1.0" encoding="utf-8"?><X:%s xmlns:D="DAV:" xmlns:X="%s">'
            '<D:prop><D:getetag/><X:%s/></D:prop>%s</X:%s>' % (rep, ns, data, hs, rep)).encode("utf-8")


def query_all_body(kind):
    if kind == "calendar":
        return (b'<?xml version="1.0" encoding="utf-8"?>'
                b'<C:calendar-query xmlns:D="DAV:" xmlns:C="urn:ietf:params:xml:ns:caldav">'
                b'<D:prop><D:getetag/><C:calendar-data/></D:prop>'
                b'<C:filter><C:comp-filter name="VCALENDAR"/></C:filter></C:calendar-query>')
    return (b'<?xml version="1.0" encoding="utf-8"?>'
            b'<A:addressbook-query xmlns:D="DAV:" xmlns:A="urn:ietf:params:xml:ns:carddav">'
            b'<D:prop><D:getetag/><A:address-data/></D:prop>'
            b'<A:filter><A:prop-filter name="FN"/></A:filter></A:addressbook-query>')


def sync_body(token, props=("getetag",)):
    """props: the DAV properties the client asks for per member (() = an empty DAV:prop)."""
    from xml.sax.saxutils import escape
    return ('<?xml version="1.0" encoding="utf-8"?><D:sync-collection xmlns:D="DAV:">'
            '<D:sync-token>%s</D:sync-token><D:sync-level>1</D:sync-level>'
            '<D:prop>%s</D:prop></D:sync-collection>' % (
                escape(token or ""), "".join("<D:%s/>" % p for p in props))).encode("utf-8")


PROP_TAGS = {
    "resourcetype": "{DAV:}resourcetype",
    # abstract property -> (xml qualified tag, namespace decl)
    "displayname": "{DAV:}displayname",
    "caldesc": "{urn:ietf:params:xml:ns:caldav}calendar-description",
    "abdesc": "{urn:ietf:params:xml:ns:carddav}addressbook-description",
    "calcolor": "{http://apple.com/ns/ical/}calendar-color",
    "abcolor": "{http://inf-it.com/ns/ab/}addressbook-color",
    "order": "{http://apple.com/ns/ical/}calendar-order",
    "comment": "{DAV:}comment",
}


def _qname(tag):
    ns, _, local = tag[1:].partition("}")
    return ns, local


def proppatch_body(ops, root="{DAV:}propertyupdate", cdata=False):
    """ops: list of (abstract prop, value or None for remove).  cdata: values travel in CDATA
    sections (the same text, spelled differently)."""
    from xml.sax.saxutils import escape as _escape

    def escape(v):
        if cdata and "]]>" not in v:
            return "<![CDATA[" + v + "]]>"
        return _escape(v)
    rns, rlocal = _qname(root)
    parts = ['<?xml version="1.0" encoding="utf-8"?><R:%s xmlns:R="%s" xmlns:D="DAV:">' % (rlocal, rns)]
    RT = {"collection": "<D:collection/>", "calendar": '<C:calendar xmlns:C="urn:ietf:params:xml:ns:caldav"/>',
          "addressbook": '<A:addressbook xmlns:A="urn:ietf:params:xml:ns:carddav"/>',
          "junk": '<X:shared xmlns:X="http://example.com/ns/sharing"/>'}
    for p, v in ops:
        if p == "resourcetype":
            # v: comma separated element names, e.g. "collection,addressbook,junk"
            parts.append('<D:set><D:prop><D:resourcetype>%s</D:resourcetype></D:prop></D:set>'
                         % "".join(RT[x] for x in v.split(",") if x))
            continue
        ns, local = _qname(PROP_TAGS.get(p, p))
        if v is None:
            parts.append('<D:remove><D:prop><P:%s xmlns:P="%s"/></D:prop></D:remove>' % (local, ns))
        else:
            parts.append('<D:set><D:prop><P:%s xmlns:P="%s">%s</P:%s></D:prop></D:set>'
                         % (local, ns, escape(v), local))
    parts.append('</R:%s>' % rlocal)
    return "".join(parts).encode("utf-8")


def reencode_xml(body, mode):
    """The same XML request body in another encoding / with another Content-Type spelling.
    -> (bytes, content type) or None if the text cannot be written in that encoding."""
    text = body.decode("utf-8")
    if mode == "latin1-both" or mode == "latin1-prolog":
        try:
            raw = text.replace('encoding="utf-8"', 'encoding="iso-8859-1"').encode("iso-8859-1")
        except UnicodeEncodeError:
            return None
        return raw, ("application/xml; charset=iso-8859-1" if mode == "latin1-both" else "application/xml")
    if mode == "utf8-param":
        return body, 'text/xml; charset="utf-8"'
    if mode == "appxml":
        return body, "application/xml"
    if mode == "utf16":
        return text.replace('encoding="utf-8"', 'encoding="utf-16"').encode("utf-16"), "application/xml"
    return body, "text/xml"


def mkcol_body(kind, props=()):
    """Extended MKCOL (RFC 5689) body creating an addressbook / calendar / plain collection."""
    from xml.sax.saxutils import escape
    rt = {"calendar": '<C:calendar xmlns:C="urn:ietf:params:xml:ns:caldav"/>',
          "addressbook": '<A:addressbook xmlns:A="urn:ietf:params:xml:ns:carddav"/>',
          "other": ""}[kind]
    parts = ['<?xml version="1.0" encoding="utf-8"?><D:mkcol xmlns:D="DAV:"><D:set><D:prop>'
             '<D:resourcetype><D:collection/>%s</D:resourcetype>' % rt]
    for p, v in props:
        ns, local = _qname(PROP_TAGS.get(p, p))
        parts.append('<P:%s xmlns:P="%s">%s</P:%s>' % (local, ns, escape(v), local))
    parts.append('</D:prop></D:set></D:mkcol>')
    return "".join(parts).encode("utf-8")


def mkcalendar_body(props=()):
    """MKCALENDAR request body (RFC 4791 5.3.1) setting properties at creation."""
    from xml.sax.saxutils import escape
    parts = ['<?xml version="1.0" encoding="utf-8"?><C:mkcalendar xmlns:D="DAV:" '
             'xmlns:C="urn:ietf:params:xml:ns:caldav"><D:set><D:prop>']
    for p, v in props:
        ns, local = _qname(PROP_TAGS.get(p, p))
        parts.append('<P:%s xmlns:P="%s">%s</P:%s>' % (local, ns, escape(v), local))
    parts.append('</D:prop></D:set></C:mkcalendar>')
    return "".join(parts).encode("utf-8")
