"""Reads overlapped by reads (ReadOverlapTrace.tla): run the pairs of harness/reportrace.py and
let TLC judge every run.  Used by C17 (multiget), C11 (calendar-query), C12 (addressbook-query)
and C16 (PROPFIND)."""
import json
import logging
import multiprocessing
import os
import traceback

from . import common, tlc


def _work(name):
    logging.disable(logging.CRITICAL)
    try:
        os.dup2(open(os.devnull, "w").fileno(), 2)
    except OSError:
        pass
    from . import reportrace
    try:
        return {"ok": True, "recs": reportrace.run_pair(name)}
    except Exception:
        return {"ok": False, "error": traceback.format_exc()}


def check(rep, names):
    """A report / PROPFIND during which another one (other targets, another property list) is
    answered, at every file-system step of the first: its answer is the one it gets alone."""
    names = sorted(names)
    with multiprocessing.get_context("fork").Pool(min(8, len(names))) as pool:
        outs = pool.map(_work, names, chunksize=1)
    recs = []
    for o in outs:
        if not o["ok"]:
            common.machinery_failure("harness exception (read overlap):\n" + o["error"])
        recs.extend(o["recs"])
    res, stat = tlc.validate_traces("ReadOverlapTrace", "ReadOverlapTrace.cfg", {"recs": recs})
    for v in res:
        r = recs[v["i"] - 1]
        if v["k"] == "viol":
            rep.violation("%s answered while another request is served (%s) after %d of %d steps: %s got=%s alone=%s" % (
                r["pair"].split("/")[0], r["pair"], r["i"], r["gates"], v["w"], json.dumps(r["got"]), json.dumps(r["alone"])),
                {"property": rep.prop, "verdict": v, "record": r})
        else:
            rep.note("read overlap: %s (%s after %d steps)" % (v["w"], r["pair"], r["i"]))
    rep.coverage["read_overlap_runs"] = len(recs)
    rep.coverage["read_overlap_pairs"] = names
