"""C12: concretisation of the CardQuery case tables and execution through REPORT
addressbook-query on a real server."""
import urllib.parse
from xml.sax.saxutils import escape, quoteattr

from . import alpha
from .world import World

LET = {"a": "a", "A": "A", "b": "b", "s": "s", "e'": "é", "E'": "É", "sp": " ", "ss'": "ß", "ls'": "ſ",
       "cm": ",", "sc": ";", "LF": "x" * 69}
CARD = "urn:ietf:params:xml:ns:carddav"


def text(seq):
    return "".join(LET[x] for x in seq)


def vesc(t):
    """vCard TEXT escaping"""
    return t.replace("\\", "\\\\").replace(",", "\\,").replace(";", "\\;").replace("\n", "\\n")


def vfold(line):
    """fold a content line at 75 octets (never inside a UTF-8 sequence)"""
    out, cur = [], b""
    for ch in line:
        e = ch.encode("utf-8")
        if len(cur) + len(e) > 75:
            out.append(cur)
            cur = b" " + e
        else:
            cur += e
    out.append(cur)
    return b"\r\n".join(out).decode("utf-8")


# text no filter of the tables speaks about, with characters outside the BMP (personal names in
# CJK Extension B, emoji, mathematical letters) - what is stored is what address-data must carry
DECOR = ["", "X-PHONETIC:\U00020BB7\u7530 \U0001F600", "X-LABEL:\U0001D49C\u00e9 \u2603", "X-TAB:a\tb"]


def vcard(card, uid, decor=""):
    lines = ["BEGIN:VCARD", "VERSION:3.0", "UID:" + uid]
    if decor:
        lines.append(decor)
    fn = text(card["FN"][0]["v"])
    lines.append("FN:" + fn)
    lines.append("N:" + fn + ";;;;")
    for inst in card.get("EMAIL", []):
        if inst["type"]:
            lines.append("EMAIL;TYPE=%s:%s" % (text(inst["type"]), text(inst["v"])))
        else:
            lines.append("EMAIL:" + text(inst["v"]))
    for inst in card.get("NOTE", []):
        lines.append(vfold("NOTE:" + vesc(text(inst["v"]))))
    lines.append("END:VCARD")
    return ("\r\n".join(lines) + "\r\n").encode("utf-8")


def tm_xml(tm):
    return '<A:text-match collation="%s" match-type="%s" negate-condition="%s">%s</A:text-match>' % (
        tm["coll"], tm["type"], "yes" if tm["neg"] else "no", escape(text(tm["needle"])))


def pf_xml(pf):
    inner = ""
    if pf["nd"]:
        inner = "<A:is-not-defined/>"
    else:
        inner = "".join(tm_xml(t) for t in pf["tms"])
        for p in pf["par"]:
            pin = "<A:is-not-defined/>" if p["nd"] else (tm_xml(p["tm"]) if p["tm"]["on"] else "")
            inner += '<A:param-filter name="TYPE">%s</A:param-filter>' % pin
    return '<A:prop-filter name="%s" test="%s">%s</A:prop-filter>' % (pf["name"], pf["test"], inner)


def query_xml(f, limit=None):
    lim = "<A:limit><A:nresults>%d</A:nresults></A:limit>" % limit if limit is not None else ""
    return ('<?xml version="1.0" encoding="utf-8"?><A:addressbook-query xmlns:A="%s" xmlns:D="DAV:">'
            '<D:prop><D:getetag/><A:address-data/></D:prop><A:filter test="%s">%s</A:filter>%s'
            '</A:addressbook-query>' % (CARD, f["test"], "".join(pf_xml(p) for p in f["pfs"]), lim)).encode("utf-8")


def report(w, path, body):
    r = w.request("REPORT", path, [("Content-Type", "text/xml"), ("Depth", "1")], body)
    if r.status != 207:
        return None, "status %d" % r.status, {}
    rs, _ = alpha.parse_multistatus(r.body)
    names = []
    data = {}
    for x in rs:
        n = urllib.parse.unquote(x.href or "").rstrip("/").rsplit("/", 1)[-1]
        names.append(n)
        d = x.text("{%s}address-data" % CARD)
        if d is not None:
            data[n] = d.encode("utf-8").replace(b"\r\n", b"\n")
    return names, "", data


def card_name(i):
    """member names with lower, upper and mixed case extensions"""
    return "c%04d%s" % (i, (".vcf", ".VCF", ".Vcf")[i % 3])


def make_book(w, path, cards):
    from . import gamma
    r = w.request("MKCOL", path, [("Content-Type", "text/xml")], gamma.mkcol_body("addressbook"))
    assert r.status in range(200, 300), r
    for i, c in enumerate(cards):
        r = w.request("PUT", path + card_name(i), [("Content-Type", "text/vcard")], vcard(c, "card-%d" % i, DECOR[i % len(DECOR)]))
        assert r.status in range(200, 300), (r.status, r.body[:300], vcard(c, "x"))


def run_table_a(values, table, frontend="wsgi", ascii_only=False):
    """One address book holding one card per value; one REPORT per text-match."""
    w = World(frontend=frontend, prefix="/")
    try:
        cards = [{"FN": [{"v": v, "type": []}]} for v in values]
        make_book(w, "/user/contacts/a/", cards)
        out = []
        data_ok = True
        checked = 0
        for t in table:
            f = {"test": "anyof", "pfs": [{"name": "FN", "nd": False, "test": "anyof", "tms": [t["tm"]], "par": []}]}
            names, err, data = report(w, "/user/contacts/a/", query_xml(f))
            got = []
            for n in names or []:
                if n.startswith("c") and n.lower().endswith(".vcf"):
                    got.append(values[int(n[1:5])])
            if checked < 30:
                for n, d in list(data.items())[:2]:
                    g = w.request("GET", "/user/contacts/a/" + n)
                    checked += 1
                    if g.status != 200 or g.body.replace(b"\r\n", b"\n") != d:
                        data_ok = False
            out.append({"tm": t["tm"], "got": got, "err": err})
        return out, {"data_ok": data_ok, "checked": checked}
    finally:
        w.close()


def run_table_b(cards, table, frontend="wsgi"):
    w = World(frontend=frontend, prefix="/")
    try:
        make_book(w, "/user/contacts/b/", cards)
        out = []
        lim = []
        data_ok, checked = True, 0
        for t in table:
            names, err, data = report(w, "/user/contacts/b/", query_xml(t["f"]))
            if checked < 40:
                for n, d in sorted(data.items())[checked % 3:][:3]:
                    g = w.request("GET", "/user/contacts/b/" + n)
                    checked += 1
                    if g.status != 200 or g.body.replace(b"\r\n", b"\n") != d:
                        data_ok = False
            got = [False] * len(cards)
            extra = 0
            for n in names or []:
                if n.startswith("c") and n.lower().endswith(".vcf"):
                    got[int(n[1:5])] = True
                else:
                    extra += 1
            out.append({"f": t["f"], "got": got, "err": err, "extra": extra})
            total = sum(1 for x in got if x)
            # (the smallest limit last: the next unlimited query follows a limited one)
            for nres in (10, 2, 0, 1):
                ln, lerr, _ = report(w, "/user/contacts/b/", query_xml(t["f"], limit=nres))
                lnames = [n for n in (ln or []) if n.lower().endswith(".vcf")]
                full = {card_name(i) for i, x in enumerate(got) if x}
                lim.append({"n": nres, "total": total, "got": len(lnames), "err": lerr,
                            "subset": set(lnames) <= full})
        return out, lim, {"data_ok": data_ok, "checked": checked}
    finally:
        w.close()
