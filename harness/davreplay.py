"""spec -> code: replay behaviours of DavMC (TLC simulation) on the real server."""
from . import gamma
from .davdriver import DavSession

VALUES = {("displayname", 1): "Name one", ("displayname", 2): "Name two",
          ("color", 1): "#111111", ("color", 2): "#222222AA"}


def _cond(s, cond):
    """Model condition (tags = set of model bodies) -> driver classes."""
    if not cond.get("present"):
        return None
    out = []
    if cond.get("star"):
        out.append("star")
    for b in cond.get("tags", []):
        data, ct = gamma.model_body(b)
        bid = s.body_id(data, gamma.kind_for_ct(ct), valid=(b != 4))
        et = s.etag_of_b.get(bid)
        out.append("etag:" + (et if et else '"never-issued-%d"' % b))
    return out or ["empty"]      # present, listing nothing


def _cond_coll(cond):
    """model condition on a collection (tag 1 = its current validator, 2 = another one)"""
    if not cond or not cond.get("present"):
        return None
    if cond.get("star"):
        return ["star"]
    return [{1: "cur", 2: "garbage"}[t] for t in sorted(cond.get("tags", []))] or ["garbage"]


def replay_rqs(rqs, seed, frontend="wsgi", prefix="/", backend="tree", principal="/user/"):
    # (a behaviour in which the disk runs full is judged on the served state only, like the
    #  other fault sessions: an interrupted write may leave the work tree behind the index)
    faults = any(rq.get("op") == "DiskFull" and rq.get("on") for rq in rqs)
    s = DavSession(frontend=frontend, prefix=prefix, backend=backend, principal=principal, audit_git=not faults)
    try:
        if backend == "tree":
            # SimSt of DavMC: the usual collections exist
            s.mk("cal1", "calendar")
            s.mk("ab1", "addressbook")
        full = False          # the model's environment: the disk is full
        for k, rq in enumerate(rqs):
            op = rq.get("op")
            variant = (seed + k) % 3
            # under a full disk the write meets the fault at one of its file-system steps
            # (mutation k, or the k-th file that opens but cannot be written)
            fault = 0
            if full:
                fault = [1, 2, 3, 5, 8, -1, -2, -3][(seed + k) % 8]
            if op == "Lock":
                s.lock(rq["c"], True)
            elif op == "Unlock":
                s.lock(rq["c"], False)
            elif op == "DiskFull":
                full = bool(rq.get("on"))
            elif op == "Put":
                data, ct = gamma.model_body(rq["b"], variant=variant)
                s.put(rq["c"], rq["n"], data, ct=ct, im=_cond(s, rq["im"]), inm=_cond(s, rq["inm"]),
                      valid=(rq["b"] != 4), fault=fault)
            elif op == "Post":
                data, ct = gamma.model_body(rq["b"], variant=variant)
                s.post(rq["c"], data, ct)
            elif op == "Delete":
                s.delete(rq["c"], rq["n"], im=_cond(s, rq["im"]), fault=fault)
            elif op == "Mk":
                s.mk(rq["c"], rq["kind"])
            elif op == "DeleteColl":
                s.delete_coll(rq["c"], im=_cond_coll(rq.get("im")))
            elif op == "Proppatch":
                kind = s.events[-1]["audit"]["colls"].get(rq["c"], {}).get("kind", "calendar") \
                    if s.events else "calendar"
                ops = []
                for x in rq["ins"]:
                    p = x["p"]
                    if p == "color":
                        p = "abcolor" if kind == "addressbook" else "calcolor"
                    ops.append((p, VALUES[(x["p"], x["v"])] if x["set"] else None))
                s.propupdate(rq["c"], ops, fault=fault)
            elif op == "Retype":
                s.propupdate(rq["c"], [("resourcetype", {"calendar": "collection,calendar", "addressbook": "collection,addressbook",
                                                         "other": "collection"}.get(rq["kind"], "junk"))])
            elif op == "Restart":
                full = False
                s.restart(defaults=bool(rq.get("defaults")))
        return s.trace(seed), s.concrete
    finally:
        s.close()


def replay_behaviour(states, seed, **kw):
    rqs = [st["rq"] for st in states if st.get("rq", {}).get("op") not in (None, "Init")]
    return replay_rqs(rqs, seed, **kw)
