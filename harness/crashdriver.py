"""C04: crash images of every write protocol step of the real stores.

For every mutating file-system event k of an operation, the store directory is
copied just before k executes (= the disk a kill -9 at that instant leaves;
file data reaches the disk at close(), which precedes the next event), plus
torn variants in which a file that was open for writing is truncated.  Each
image is re-opened by the real code with a fresh store object and read
completely.  The observations are judged by TLC (CrashTrace.tla)."""
import os
import shutil

from . import compat  # noqa: F401
from . import fsmon, gamma
from .alpha import Interner
from .world import mkscratch, git

from xandikos.store.git import BareGitStore, TreeGitStore, GitStore  # noqa: E402
from xandikos.store.vdir import VdirStore  # noqa: E402
from xandikos.icalendar import ICalendarFile  # noqa: E402
from xandikos.vcard import VCardFile  # noqa: E402

KEEP = {"LockIndex", "WriteFile", "Remove", "AddObj", "LockRef", "MoveRef", "WriteIndex",
        "WriteTmp", "Rename", "LockCfg", "WriteCfg"}


def _load(s):
    s.load_extra_file_handler(ICalendarFile)
    s.load_extra_file_handler(VCardFile)
    return s


def open_store(kind, path):
    if kind == "vdir":
        return _load(VdirStore.open_from_path(path))
    return _load(GitStore.open_from_path(path))


def create_store(kind, path, cfgbackend=False):
    if kind == "vdir":
        return _load(VdirStore.create(path))
    st = _load(TreeGitStore.create(path) if kind == "tree" else BareGitStore.create(path))
    if cfgbackend:
        git(path, "config", "xandikos.type", "calendar")
        st = open_store(kind, path)
    return st


class Imager(fsmon.Monitor):
    """Copies the store directory before every mutating event below it."""

    def __init__(self, root, outdir):
        super().__init__(root)
        self.outdir = outdir
        self.images = []     # (k, gate, path of image, files open for writing before this point)
        self.k = 0
        self.opened = []     # files opened for writing so far (relative paths)

    def before_mutation(self, event, paths):
        if not self.relevant(paths):
            return
        self.k += 1
        dst = os.path.join(self.outdir, "img%03d" % self.k)
        shutil.copytree(self.root, dst, symlinks=True)
        gate = fsmon.gate_name(event, paths, self.root)
        self.images.append((self.k, gate, dst, list(self.opened)))
        if event == "open":
            self.opened.append(os.path.relpath(paths[0], self.root))


PROPS = ("displayname", "description", "color", "comment")


def observe(kind, path, C):
    """Re-open an image and read everything. C: Interner for contents."""
    obs = {"opens": True, "readable": True, "vis": {}, "props": {}, "fsck": True, "err": ""}
    try:
        st = open_store(kind, path)
        listing = list(st.iter_with_etag())
    except Exception as exc:
        obs["opens"] = False
        obs["err"] = type(exc).__name__ + ": " + str(exc)[:100]
        return obs
    for (n, ct, et) in listing:
        try:
            data = b"".join(st.get_file(n, ct, et).content)
            obs["vis"][n] = C(data)
        except Exception as exc:
            obs["readable"] = False
            obs["vis"][n] = 0
            obs["err"] = "get_file(%s): %s" % (n, type(exc).__name__)
    for p in PROPS:
        try:
            v = getattr(st, "get_" + p)()
            obs["props"][p] = C(("prop", v)) if v else 0
        except (NotImplementedError, KeyError):
            obs["props"][p] = 0      # unset / not supported by this store kind
        except Exception as exc:
            obs["opens"] = False
            obs["err"] = "get_%s: %s" % (p, type(exc).__name__)
    if kind != "vdir":
        fs = git(path, "fsck", "--strict", "--no-dangling", "--cache", check=False)
        out = (fs.stdout + fs.stderr).decode("utf-8", "replace")
        bad = [ln for ln in out.split("\n") if ln.strip()
               and not ln.startswith(("notice:", "Checking", "dangling", "warning: unable to unlink"))]
        if fs.returncode != 0 or any(("missing" in ln or "broken" in ln or "error" in ln) for ln in bad):
            obs["fsck"] = False
            obs["err"] = (obs["err"] + " fsck: " + " | ".join(bad[:3]))[:300]
    return obs


def run_op_with_images(kind, prep, op, C, cfgbackend=False, warm=()):
    """prep: list of operations establishing the prior contents; op: the operation whose
    crash points are enumerated.  Returns (records, gates)."""
    base = mkscratch("xc-")
    try:
        path = os.path.join(base, "store")
        st = create_store(kind, path, cfgbackend)
        for o in prep:
            apply_op(st, o)
        st = open_store(kind, path)          # the writer is a fresh process image
        if op["t"] == "http":
            # the operation arrives as an HTTP request at a server whose root holds the store
            # as the collection /store/
            from .world import World
            st = World(frontend="wsgi", prefix="/", root=base, autocreate=False)
        for o in warm:
            # earlier requests of the same server process (same long-lived store object)
            apply_op(st, o)
        pre = observe(kind, path, C)
        imgdir = os.path.join(base, "images")
        os.makedirs(imgdir)
        im = Imager(path, imgdir)
        err = ""
        with im:
            try:
                apply_op(st, op)
            except Exception as exc:
                err = type(exc).__name__
        if op["t"] == "http":
            st.stop()
        final = observe(kind, path, C)
        # crash while the last file opened for writing has not been flushed yet
        if im.opened:
            dst = os.path.join(imgdir, "img%03d" % (im.k + 1))
            shutil.copytree(path, dst, symlinks=True)
            im.images.append((im.k + 1, "end", dst, list(im.opened)))
        records = []
        for (k, gate, ipath, opened) in im.images:
            variants = [("", ipath)]
            # torn variants: a file opened for writing during the operation and still present
            # under that name (the most recent one, and every lock / temporary file that has
            # not been renamed into place yet) holds 0 / half of its bytes
            cands = []
            for rel in reversed(opened):
                if rel not in cands and (not cands or rel.endswith((".lock", ".tmp"))) \
                        and (not cands or os.path.isfile(os.path.join(ipath, rel))):
                    cands.append(rel)
            for rel in cands[:4]:
                fp = os.path.join(ipath, rel)
                if os.path.isfile(fp):
                    size = os.path.getsize(fp)
                    for frac, tag in ((0, "empty"), (0.5, "half")):
                        if size > 1 or (frac == 0 and rel == cands[0]):
                            tp = ipath + "-" + tag + "-%d" % cands.index(rel)
                            shutil.copytree(ipath, tp, symlinks=True)
                            with open(os.path.join(tp, rel), "r+b") as f:
                                f.truncate(int(size * frac))
                            variants.append((tag + ":" + rel, tp))
            for (torn, vp) in variants:
                o = observe(kind, vp, C)
                records.append({"k": k, "gate": gate, "torn": torn, "obs": o})
        gates = [g for (_, g, _, _) in im.images if g in KEEP]
        return {"kind": kind, "cfgbackend": cfgbackend, "op": op, "pre": pre, "final": final,
                "oper_error": err, "images": records, "gates": gates, "nevents": im.k}
    finally:
        shutil.rmtree(base, ignore_errors=True)


def apply_op(st, o):
    t = o["t"]
    if t == "put":
        st.import_one(o["n"], gamma.content_type_for(o["n"]), [o["data"]])
    elif t == "del":
        st.delete_one(o["n"])
    elif t == "prop":
        getattr(st, "set_" + o["p"])(o["v"])
    elif t == "http":
        body = o.get("data")
        if o["method"] == "PROPPATCH":
            body = gamma.proppatch_body([(o["p"], o["v"])])
        hdrs = [("Content-Type", o["ct"])] if o.get("ct") else []
        if o["method"] == "PROPPATCH":
            hdrs = [("Content-Type", "text/xml")]
        r = st.request(o["method"], "/store/" + (o.get("n") or ""), hdrs, body)
        if r.status >= 400:
            raise RuntimeError("http %d" % r.status)
    else:
        raise ValueError(t)
