"""C04: crash images of every write protocol step of the real stores.

For every mutating file-system event k of an operation, the store directory is
copied just before k executes (= the disk a kill -9 at that instant leaves;
file data reaches the disk at close(), which precedes the next event), plus
torn variants in which a file that was open for writing is truncated.  Each
image is re-opened by the real code with a fresh store object and read
completely.  The observations are judged by TLC (CrashTrace.tla)."""
import os
import shutil

from . import compat  # noqa: F401
from . import fsmon, gamma
from .alpha import Interner
from .world import mkscratch, git

from xandikos.store.git import BareGitStore, TreeGitStore, GitStore  # noqa: E402
from xandikos.store.vdir import VdirStore  # noqa: E402
from xandikos.icalendar import ICalendarFile  # noqa: E402
from xandikos.vcard import VCardFile  # noqa: E402

KEEP = {"LockIndex", "WriteFile", "Remove", "AddObj", "LockRef", "MoveRef", "WriteIndex",
        "WriteTmp", "Rename", "LockCfg", "WriteCfg"}


def _load(s):
    s.load_extra_file_handler(ICalendarFile)
    s.load_extra_file_handler(VCardFile)
    return s


def open_store(kind, path):
    if kind == "vdir":
        return _load(VdirStore.open_from_path(path))
    return _load(GitStore.open_from_path(path))


def create_store(kind, path, cfgbackend=False):
    if kind == "vdir":
        return _load(VdirStore.create(path))
    st = _load(TreeGitStore.create(path) if kind == "tree" else BareGitStore.create(path))
    if cfgbackend:
        git(path, "config", "xandikos.type", "calendar")
        st = open_store(kind, path)
    return st


class Imager(fsmon.Monitor):
    """Copies the store directory before every mutating event below it."""

    def __init__(self, root, outdir):
        super().__init__(root)
        self.outdir = outdir
        self.images = []     # (k, gate, path of image, files open for writing before this point)
        self.k = 0
        self.opened = []     # files opened for writing so far (relative paths)

    def before_mutation(self, event, paths):
        if not self.relevant(paths):
            return
        self.k += 1
        dst = os.path.join(self.outdir, "img%03d" % self.k)
        shutil.copytree(self.root, dst, symlinks=True)
        gate = fsmon.gate_name(event, paths, self.root)
        self.images.append((self.k, gate, dst, list(self.opened)))
        if event == "open":
            self.opened.append(os.path.relpath(paths[0], self.root))


PROPS = ("displayname", "description", "color", "comment")


def observe(kind, path, C):
    """Re-open an image and read everything. C: Interner for contents."""
    obs = {"opens": True, "readable": True, "vis": {}, "props": {}, "fsck": True, "err": ""}
    try:
        st = open_store(kind, path)
        listing = list(st.iter_with_etag())
    except Exception as exc:
        obs["opens"] = False
        obs["err"] = type(exc).__name__ + ": " + str(exc)[:100]
        return obs
    for (n, ct, et) in listing:
        try:
            data = b"".join(st.get_file(n, ct, et).content)
            obs["vis"][n] = C(data)
        except Exception as exc:
            obs["readable"] = False
            obs["vis"][n] = 0
            obs["err"] = "get_file(%s): %s" % (n, type(exc).__name__)
    for p in PROPS:
        try:
            v = getattr(st, "get_" + p)()
            obs["props"][p] = C(("prop", v)) if v else 0
        except (NotImplementedError, KeyError):
            obs["props"][p] = 0      # unset / not supported by this store kind
        except Exception as exc:
            obs["opens"] = False
            obs["err"] = "get_%s: %s" % (p, type(exc).__name__)
    if kind != "vdir":
        fs = git(path, "fsck", "--strict", "--no-dangling", "--cache", check=False)
        out = (fs.stdout + fs.stderr).decode("utf-8", "replace")
        bad = [ln for ln in out.split("\n") if ln.strip()
               and not ln.startswith(("notice:", "Checking", "dangling", "warning: unable to unlink"))]
        if fs.returncode != 0 or any(("missing" in ln or "broken" in ln or "error" in ln) for ln in bad):
            obs["fsck"] = False
            obs["err"] = (obs["err"] + " fsck: " + " | ".join(bad[:3]))[:300]
    return obs


TRACED = ("/xandikos/store/", "/dulwich/index.py", "/dulwich/file.py", "/dulwich/refs.py",
          "/dulwich/repo.py", "/dulwich/object_store.py", "/dulwich/objects.py", "/dulwich/pack.py")


class Interrupter:
    """The process is told to die by a signal that Python turns into an exception
    (SIGINT -> KeyboardInterrupt): raised at the k-th executed line of the store / git code,
    it unwinds through every `finally' and `except BaseException' on its way out."""

    def __init__(self, k):
        self.k = k
        self.n = 0
        self.where = ""

    def _global(self, frame, event, arg):
        fn = frame.f_code.co_filename
        if any(t in fn for t in TRACED):
            return self._local
        return None

    def _local(self, frame, event, arg):
        if event == "line":
            self.n += 1
            if self.n == self.k:
                import sys
                sys.settrace(None)
                self.where = "%s.%s" % (os.path.basename(frame.f_code.co_filename)[:-3], frame.f_code.co_name)
                raise KeyboardInterrupt("injected")
        return self._local

    def __enter__(self):
        import sys
        sys.settrace(self._global)
        return self

    def __exit__(self, *a):
        import sys
        sys.settrace(None)
        return False


def run_op_with_interrupts(kind, prestate, op, C, npoints, rng):
    """prestate: a directory holding the store as it is before `op'.  -> image records"""
    import gc
    base = mkscratch("xk-")
    try:
        import sys
        sys.unraisablehook = lambda *a: None     # (an injection inside a __del__ is swallowed by Python)

        def attempt(k, tag):
            path = os.path.join(base, "s%s" % tag)
            shutil.copytree(prestate, path, symlinks=True)
            st = open_store(kind, path)
            it = Interrupter(k)
            fired = False
            try:
                with it:
                    apply_op(st, op)
            except KeyboardInterrupt:
                fired = True
            except Exception:
                pass
            del st
            gc.collect()        # what interpreter shutdown does to files still open
            return it, fired, path
        it, _, p0 = attempt(0, "count")
        shutil.rmtree(p0, ignore_errors=True)
        total = it.n
        if total <= npoints:
            points = list(range(1, total + 1))
        else:
            points = sorted(set([1 + (i * (total - 1)) // (npoints // 2 - 1) for i in range(npoints // 2)] +
                                [rng.randint(1, total) for _ in range(npoints // 2)]))
        records = []
        for k in points:
            it, fired, path = attempt(k, k)
            if fired:
                records.append({"k": 10000 + k, "gate": "interrupt:" + it.where, "torn": "",
                                "obs": observe(kind, path, C)})
            shutil.rmtree(path, ignore_errors=True)
        return records, total
    finally:
        shutil.rmtree(base, ignore_errors=True)


def foreign_tmpdir(path):
    """A fresh directory on another file system than `path' (deployments keep their data on a
    disk and /tmp in memory), or None when this machine has only one writable file system."""
    import tempfile
    here = os.stat(path).st_dev
    for cand in ("/dev/shm", "/run/shm", "/tmp", "/var/tmp", "/run"):
        try:
            if os.path.isdir(cand) and os.access(cand, os.W_OK) and os.stat(cand).st_dev != here:
                return tempfile.mkdtemp(prefix="xtmp-", dir=cand)
        except OSError:
            continue
    return None


def run_locale_scenario(kind, cfgbackend=False):
    """Writer and reader processes under LC_ALL=C without UTF-8 mode.  -> CrashTrace records: one
    per operation of localeworker.OPS, `final' = what the restarted process reads."""
    import subprocess
    import sys
    import json as _json
    from . import localeworker as lw
    base = mkscratch("xl-")
    try:
        path = os.path.join(base, "store")
        st = create_store(kind, path, cfgbackend)
        apply_op(st, {"t": "put", "n": "a.ics", "data": gamma.ics_event("locale-prior", "prior")})
        del st
        env = dict(os.environ, LC_ALL="C", LANG="C", PYTHONUTF8="0", PYTHONCOERCECLOCALE="0", PYTHONIOENCODING="utf-8")

        def run(phase):
            p = subprocess.run([sys.executable, "-X", "utf8=0", "-m", "harness.localeworker", phase, kind, path],
                               env=env, stdout=subprocess.PIPE, stderr=subprocess.PIPE, timeout=120)
            if p.returncode != 0 or not p.stdout:
                raise RuntimeError("locale worker failed: " + p.stderr.decode("utf-8", "replace")[-600:])
            return _json.loads(p.stdout.decode("utf-8"))
        pre = run("read")["obs"]
        w = run("write")
        final = run("read")
        # expected state: every acknowledged operation in effect, every refused one without trace
        vis = dict(pre["vis"])
        props = dict(pre["props"])
        for o, r in zip(lw.OPS, w["res"]):
            if r:
                continue
            if o["t"] == "prop":
                props[o["p"]] = lw.H(("prop", o["v"]))
            else:
                vis[o["n"]] = None       # present, content as served (not compared byte for byte)
        return {"kind": kind + ("-gitcfg" if cfgbackend else ""), "encoding": w["encoding"], "res": w["res"],
                "same_process": w["obs"], "final": final["obs"], "want_props": props,
                "want_names": sorted(vis), "ops": [dict(o) for o in lw.OPS]}
    finally:
        shutil.rmtree(base, ignore_errors=True)


def run_op_with_images(kind, prep, op, C, cfgbackend=False, warm=(), interrupts=0, seed=0, foreign_tmp=False):
    """prep: list of operations establishing the prior contents; op: the operation whose
    crash points are enumerated.  Returns (records, gates)."""
    base = mkscratch("xc-")
    try:
        path = os.path.join(base, "store")
        st = create_store(kind, path, cfgbackend)
        for o in prep:
            apply_op(st, o)
        st = open_store(kind, path)          # the writer is a fresh process image
        if op["t"] == "http":
            # the operation arrives as an HTTP request at a server whose root holds the store
            # as the collection /store/
            from .world import World
            st = World(frontend="wsgi", prefix="/", root=base, autocreate=False)
        for o in warm:
            # earlier requests of the same server process (same long-lived store object)
            apply_op(st, o)
        pre = observe(kind, path, C)
        imgdir = os.path.join(base, "images")
        os.makedirs(imgdir)
        irecords, ilines = [], 0
        if interrupts and op["t"] != "http" and not warm:
            import random
            irecords, ilines = run_op_with_interrupts(kind, path, op, C, interrupts, random.Random(seed))
        im = Imager(path, imgdir)
        err = ""
        import tempfile
        ftmp = foreign_tmpdir(path) if foreign_tmp else None
        old_tmp = tempfile.tempdir
        if ftmp:
            tempfile.tempdir = ftmp       # the system's temporary directory is on another file system
        try:
            with im:
                try:
                    apply_op(st, op)
                except Exception as exc:
                    err = type(exc).__name__
        finally:
            tempfile.tempdir = old_tmp
            if ftmp:
                shutil.rmtree(ftmp, ignore_errors=True)
        if op["t"] == "http":
            st.stop()
        final = observe(kind, path, C)
        # crash while the last file opened for writing has not been flushed yet
        if im.opened:
            dst = os.path.join(imgdir, "img%03d" % (im.k + 1))
            shutil.copytree(path, dst, symlinks=True)
            im.images.append((im.k + 1, "end", dst, list(im.opened)))
        records = []
        for (k, gate, ipath, opened) in im.images:
            variants = [("", ipath)]
            # torn variants: a file opened for writing during the operation and still present
            # under that name (the most recent one, and every lock / temporary file that has
            # not been renamed into place yet) holds 0 / half of its bytes
            cands = []
            for rel in reversed(opened):
                if rel not in cands and (not cands or rel.endswith((".lock", ".tmp"))) \
                        and (not cands or os.path.isfile(os.path.join(ipath, rel))):
                    cands.append(rel)
            for rel in cands[:4]:
                fp = os.path.join(ipath, rel)
                if os.path.isfile(fp):
                    size = os.path.getsize(fp)
                    for frac, tag in ((0, "empty"), (0.5, "half")):
                        if size > 1 or (frac == 0 and rel == cands[0]):
                            tp = ipath + "-" + tag + "-%d" % cands.index(rel)
                            shutil.copytree(ipath, tp, symlinks=True)
                            with open(os.path.join(tp, rel), "r+b") as f:
                                f.truncate(int(size * frac))
                            variants.append((tag + ":" + rel, tp))
            for (torn, vp) in variants:
                o = observe(kind, vp, C)
                records.append({"k": k, "gate": gate, "torn": torn, "obs": o, "rerr": ""})
            # the client repeats the request after the restart (it never saw an answer): whatever
            # the crash left behind, an acknowledged repetition has to be in effect
            if op["t"] != "http" and not warm:
                rp = ipath + "-retry"
                shutil.copytree(ipath, rp, symlinks=True)
                for dp, dns, fns in os.walk(rp):
                    for fn in fns:
                        if fn.endswith(".lock"):        # stale locks of the dead process are cleared
                            os.unlink(os.path.join(dp, fn))
                rerr = ""
                try:
                    apply_op(open_store(kind, rp), op)
                except Exception as exc:
                    rerr = type(exc).__name__
                records.append({"k": k, "gate": gate, "torn": "retry", "obs": observe(kind, rp, C), "rerr": rerr})
        gates = [g for (_, g, _, _) in im.images if g in KEEP]
        return {"kind": kind, "cfgbackend": cfgbackend, "op": op, "pre": pre, "final": final,
                "oper_error": err, "images": records + irecords, "gates": gates, "nevents": im.k,
                "interrupt_points": len(irecords), "interrupt_lines": ilines, "foreign_tmp": bool(ftmp)}
    finally:
        shutil.rmtree(base, ignore_errors=True)


def apply_op(st, o):
    t = o["t"]
    if t == "put":
        st.import_one(o["n"], gamma.content_type_for(o["n"]), [o["data"]])
    elif t == "del":
        st.delete_one(o["n"])
    elif t == "prop":
        getattr(st, "set_" + o["p"])(o["v"])
    elif t == "http":
        body = o.get("data")
        if o["method"] == "PROPPATCH":
            body = gamma.proppatch_body([(o["p"], o["v"])])
        hdrs = [("Content-Type", o["ct"])] if o.get("ct") else []
        if o["method"] == "PROPPATCH":
            hdrs = [("Content-Type", "text/xml")]
        r = st.request(o["method"], "/store/" + (o.get("n") or ""), hdrs, body)
        if r.status >= 400:
            raise RuntimeError("http %d" % r.status)
    else:
        raise ValueError(t)
