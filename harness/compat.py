"""Library entry-point shims (DESIGN 1.2a).

The pinned xandikos source was written against dulwich < 1.0 and icalendar < 7.
This sandbox has dulwich 1.2.x (no ``Repo.do_commit``) and icalendar 7.x
(``icalendar.cal.component_factory`` is a module, not a factory object).  The
shims restore these two *library* entry points; they touch no xandikos logic and
are no-ops when the attribute already has the expected shape.

Must be imported before ``xandikos.icalendar`` / ``xandikos.caldav``.
"""
import os
import sys
import types

os.environ.setdefault("PYTHONHASHSEED", "0")


def _install_do_commit():
    import dulwich.repo

    if hasattr(dulwich.repo.BaseRepo, "do_commit"):
        return

    def do_commit(self, message=None, **kwargs):
        return self.get_worktree().commit(message=message, **kwargs)

    dulwich.repo.BaseRepo.do_commit = do_commit


def _install_component_factory():
    import icalendar
    import icalendar.cal

    cf = getattr(icalendar.cal, "component_factory", None)
    if cf is not None and not isinstance(cf, types.ModuleType):
        return
    factory = icalendar.ComponentFactory()
    # ``from icalendar.cal import component_factory`` must yield the factory.
    icalendar.cal.component_factory = factory


_install_do_commit()
_install_component_factory()
