"""C16: every href the server emits dereferences, as sent, to the resource it was
emitted for; listings are complete and duplicate-free."""
import re
import urllib.parse

from . import alpha, gamma
from .alpha import DAV, CALDAV
from .world import World

CH = {"x": "e", " ": " ", "%": "%", "#": "#", "?": "?", ";": ";", "+": "+", "e'": "é",
      "2": "2", "4": "4", "0": "0", "ca": "\u0301", "mj": "\u00c3\u00a9"}


def concrete(name):
    return "".join(CH[c] for c in name) + ".ics"


def uid_of(body):
    m = re.search(rb"UID:([^\r\n]+)", body)
    return m.group(1).decode() if m else None


def deref(w, href, want_uid):
    """GET the href exactly as the server sent it."""
    if not href:
        return "no-href"
    target = href
    if "://" in href:
        target = urllib.parse.urlsplit(href).path or "/"
        if "%3A//" in href[:12]:
            return "unusable-href"
    r = w.raw("GET", target)
    if r.status == 404:
        return "404"
    if r.status != 200:
        return "status-%d" % r.status
    u = uid_of(r.body)
    if u != want_uid:
        return "wrong-resource"
    return "ok"


# the principal a route prefix is tried with: its name begins with letters of the prefix
PRINCIPAL_FOR = {"/": "/user/", "/dav/": "/david/", "/a/b/": "/alice/"}


def run_config(cases, frontend, prefix):
    principal = PRINCIPAL_FOR.get(prefix, "/user/")
    w = World(frontend=frontend, prefix=prefix, principal=principal)
    names_out = []
    checks = {}
    try:
        coll = principal + "calendars/h/"
        assert w.request("MKCALENDAR", coll).status in range(200, 300)
        uid_for = {}
        by_uid = {}
        for i, c in enumerate(cases):
            n = concrete(c["name"])
            uid = "href-%d@example.com" % i
            r = w.request("PUT", coll + n, [("Content-Type", "text/calendar")], gamma.ics_event(uid, "n%d" % i))
            rec = {"name": c["name"], "frontend": frontend, "prefix": prefix, "put": "ok", "ctx": {}}
            if r.status not in range(200, 300):
                rec["put"] = "refused-%d" % r.status
            else:
                uid_for[n] = uid
                by_uid[uid] = rec
            names_out.append(rec)
        base = w.url(coll)

        def judge_listing(ctxname, pairs, require_all=True):
            """pairs: list of (href, etag or None). Every href must dereference to a distinct
            stored resource; with require_all every stored resource must appear exactly once."""
            seen = {}
            for href, _ in pairs:
                r = w.raw("GET", href if "://" not in href else urllib.parse.urlsplit(href).path)
                u = uid_of(r.body) if r.status == 200 else None
                if u in by_uid:
                    seen[u] = seen.get(u, 0) + 1
                else:
                    checks.setdefault(ctxname + "-stray", "href-does-not-resolve(%d)" % r.status)
            for u, rec in by_uid.items():
                k = seen.get(u, 0)
                rec["ctx"][ctxname] = "ok" if k == 1 else ("missing-or-unresolvable" if k == 0 else "duplicate")
                if not require_all and k == 0:
                    rec["ctx"][ctxname] = "ok"

        # PROPFIND Depth 1
        r = w.request("PROPFIND", coll, [("Depth", "1"), ("Content-Type", "text/xml")], gamma.PROPFIND_ALL)
        rs, _ = alpha.parse_multistatus(r.body)
        members = []
        checks["collection-href-ends-in-slash"] = "ok"
        ncoll = 0
        for x in rs:
            rt = x.prop_ok(DAV + "resourcetype")
            if rt is not None and any(ch.tag == DAV + "collection" for ch in rt):
                ncoll += 1
                if not (x.href or "").endswith("/"):
                    checks["collection-href-ends-in-slash"] = "no"
                if urllib.parse.unquote(x.href or "").rstrip("/") != urllib.parse.unquote(base).rstrip("/"):
                    checks["depth1-foreign-collection"] = "listed"
            else:
                members.append((x.href, x.text(DAV + "getetag")))
        checks["depth1-lists-collection-once"] = "ok" if ncoll == 1 else "count-%d" % ncoll
        judge_listing("propfind-depth1", members)
        # PROPFIND Depth 0 on every member (addressed by the href the server emitted)
        for href, _ in members:
            r0 = w.raw("PROPFIND", href, [("Depth", "0"), ("Content-Type", "text/xml")], gamma.PROPFIND_ALL)
            g = w.raw("GET", href)
            u = uid_of(g.body) if g.status == 200 else None
            if u not in by_uid:
                continue
            v = "ok"
            try:
                rs0, _ = alpha.parse_multistatus(r0.body)
                if len(rs0) != 1:
                    v = "responses-%d" % len(rs0)
                else:
                    v = deref(w, rs0[0].href, u)
            except ValueError:
                v = "status-%d" % r0.status
            by_uid[u]["ctx"]["propfind-depth0"] = v
        for u, rec in by_uid.items():
            rec["ctx"].setdefault("propfind-depth0", "not-reachable")
        # sync-collection, calendar-query, multiget
        r = w.request("REPORT", coll, [("Content-Type", "text/xml")], gamma.sync_body(""))
        rs, _ = alpha.parse_multistatus(r.body) if r.status == 207 else ([], None)
        judge_listing("sync-collection", [(x.href, None) for x in rs if x.status != 404])
        r = w.request("REPORT", coll, [("Content-Type", "text/xml"), ("Depth", "1")], gamma.query_all_body("calendar"))
        rs, _ = alpha.parse_multistatus(r.body) if r.status == 207 else ([], None)
        judge_listing("calendar-query", [(x.href, None) for x in rs])
        r = w.request("REPORT", coll, [("Content-Type", "text/xml"), ("Depth", "1")],
                      gamma.multiget_body("calendar", [h for h, _ in members]))
        rs, _ = alpha.parse_multistatus(r.body) if r.status == 207 else ([], None)
        judge_listing("multiget", [(x.href, None) for x in rs if x.status in (None, 200)])
        # POST add-member: Location
        body = gamma.ics_event("posted@example.com", "posted")
        r = w.request("POST", coll, [("Content-Type", "text/calendar")], body)
        loc = r.header("Location")
        if r.status not in range(200, 300) or not loc:
            checks["post-location"] = "no-location(%d)" % r.status
        else:
            checks["post-location"] = deref(w, loc, "posted@example.com")
            if "//" in urllib.parse.urlsplit(loc).path:
                checks["post-location-path"] = "doubled-slash"
        # PROPPATCH response href addresses the collection
        r = w.request("PROPPATCH", coll, [("Content-Type", "text/xml")], gamma.proppatch_body([("displayname", "H")]))
        try:
            rs, _ = alpha.parse_multistatus(r.body)
            h = rs[0].href or ""
            if "%3A//" in h or "://" in h and not h.startswith("http"):
                checks["proppatch-href"] = "unusable-href"
            else:
                t = urllib.parse.urlsplit(h).path if "://" in h else h
                p = w.raw("PROPFIND", t, [("Depth", "0"), ("Content-Type", "text/xml")], gamma.PROPFIND_ALL)
                checks["proppatch-href"] = "ok" if p.status == 207 and b"calendar" in p.body else "does-not-resolve"
        except (ValueError, IndexError):
            checks["proppatch-href"] = "status-%d" % r.status
        # PROPFIND of a missing resource: the href of the 404 response
        r = w.request("PROPFIND", coll + "missing.ics", [("Depth", "0"), ("Content-Type", "text/xml")], gamma.PROPFIND_ALL)
        try:
            rs, _ = alpha.parse_multistatus(r.body)
            h = rs[0].href or ""
            checks["notfound-href"] = "unusable-href" if "%3A//" in h else "ok"
        except (ValueError, IndexError):
            checks["notfound-href"] = "ok"
        # a DELETE that fails half-way (disk full at each of its file-system steps): whatever the
        # listing names afterwards has to resolve
        from . import fsmon
        verdict = "ok"
        for k in range(1, 9):
            fn = coll + "fd%d.ics" % k
            w.request("PUT", fn, [("Content-Type", "text/calendar")], gamma.ics_event("fd-%d@example.com" % k, "fd"))
            with fsmon.FaultInjector(w.root, k):
                w.request("DELETE", fn)
            r = w.request("PROPFIND", coll, [("Depth", "1"), ("Content-Type", "text/xml")], gamma.PROPFIND_ALL)
            try:
                rs, _ = alpha.parse_multistatus(r.body)
            except ValueError:
                verdict = "listing-status-%d" % r.status
                break
            for x in rs:
                h = x.href or ""
                if h.rstrip("/").endswith("fd%d.ics" % k):
                    t = urllib.parse.urlsplit(h).path if "://" in h else h
                    if w.raw("GET", t).status != 200:
                        verdict = "listed-href-does-not-resolve"
        checks["after-failed-delete"] = verdict
        if frontend == "wsgi":
            # the same application object reached through a second mount point (SCRIPT_NAME is a
            # property of the request, not of the application): every href it emits there has to
            # resolve there
            other = {"/": "/m2/", "/dav/": "/", "/a/b/": "/dav/"}.get(prefix, "/zz/")
            explicit = ('<?xml version="1.0"?><D:propfind xmlns:D="DAV:" xmlns:C="%s"><D:prop>'
                        '<D:current-user-principal/><D:owner/><D:principal-URL/><C:calendar-home-set/>'
                        '<D:resourcetype/></D:prop></D:propfind>' % CALDAV.strip("{}")).encode()
            w.request("PROPFIND", coll, [("Depth", "0"), ("Content-Type", "text/xml")], explicit)
            w.prefix = other
            verdict = "ok"
            nh = 0
            for target, depth, body in ((coll, "1", gamma.PROPFIND_ALL), (principal, "0", gamma.PROPFIND_ALL),
                                        (coll, "0", explicit), (principal, "1", explicit)):
                r = w.request("PROPFIND", target, [("Depth", depth), ("Content-Type", "text/xml")], body)
                if r.status != 207:
                    verdict = "status-%d" % r.status
                    break
                for m in re.finditer(rb"<(?:[A-Za-z0-9]+:)?href[^>]*>([^<]*)<", r.body):
                    h = m.group(1).decode("utf-8", "replace").replace("&amp;", "&")
                    t = urllib.parse.urlsplit(h).path if "://" in h else h
                    if not t.startswith("/"):
                        continue
                    nh += 1
                    p0 = w.raw("PROPFIND", t, [("Depth", "0"), ("Content-Type", "text/xml")], gamma.PROPFIND_ALL)
                    if p0.status != 207 or b" 404 " in p0.body.split(b"propstat")[0]:
                        verdict = "href-does-not-resolve"
            checks["second-mount-hrefs"] = verdict if nh else "no-hrefs"
        return names_out, {"frontend": frontend, "prefix": prefix.strip("/") or "root", "checks": checks}
    finally:
        w.close()
