"""C11: concretisation of the CalQuery case tables and their execution through
REPORT calendar-query on a real server."""
import datetime
import urllib.parse
from zoneinfo import ZoneInfo

from . import alpha, gamma
from .world import World

NS = 'xmlns:C="urn:ietf:params:xml:ns:caldav" xmlns:D="DAV:"'
UNIT = datetime.timedelta(hours=12)
TZID_ZONE = "Europe/Berlin"

VTZ = {
    "Europe/Berlin": ["BEGIN:VTIMEZONE", "TZID:Europe/Berlin", "BEGIN:STANDARD", "DTSTART:19701025T030000",
                      "TZOFFSETFROM:+0200", "TZOFFSETTO:+0100", "TZNAME:CET", "END:STANDARD",
                      "BEGIN:DAYLIGHT", "DTSTART:19700329T020000", "TZOFFSETFROM:+0100", "TZOFFSETTO:+0200",
                      "TZNAME:CEST", "RRULE:FREQ=YEARLY;BYMONTH=3;BYDAY=-1SU", "END:DAYLIGHT", "END:VTIMEZONE"],
    "America/New_York": ["BEGIN:VTIMEZONE", "TZID:America/New_York", "BEGIN:STANDARD", "DTSTART:19701101T020000",
                         "TZOFFSETFROM:-0400", "TZOFFSETTO:-0500", "TZNAME:EST", "END:STANDARD", "END:VTIMEZONE"],
    "Asia/Tokyo": ["BEGIN:VTIMEZONE", "TZID:Asia/Tokyo", "BEGIN:STANDARD", "DTSTART:19700101T000000",
                   "TZOFFSETFROM:+0900", "TZOFFSETTO:+0900", "TZNAME:JST", "END:STANDARD", "END:VTIMEZONE"],
}


class Scenario:
    """zone: effective time zone of the query (None = server default = UTC);
    mode: how date-time values are written: utc | float | tzid."""

    def __init__(self, zone, mode):
        self.zone = zone
        self.mode = mode
        z = ZoneInfo(zone) if zone else datetime.timezone.utc
        self.z = z
        self.base = datetime.datetime(2020, 3, 2, 0, 0, tzinfo=z)   # local midnight

    def instant(self, g):
        return (self.base.astimezone(datetime.timezone.utc) + UNIT * g)

    def utc(self, g):
        return self.instant(g).strftime("%Y%m%dT%H%M%SZ")

    def dt(self, prop, g, isdate=False, force_utc=False):
        if isdate:
            d = (self.base + UNIT * g).date() if self.zone is None else \
                self.instant(g).astimezone(self.z).date()
            return "%s;VALUE=DATE:%s" % (prop, d.strftime("%Y%m%d"))
        if force_utc or self.mode == "utc":
            return "%s:%s" % (prop, self.utc(g))
        if self.mode == "float":
            return "%s:%s" % (prop, self.instant(g).astimezone(self.z).strftime("%Y%m%dT%H%M%S"))
        loc = self.instant(g).astimezone(ZoneInfo(TZID_ZONE))
        return "%s;TZID=%s:%s" % (prop, TZID_ZONE, loc.strftime("%Y%m%dT%H%M%S"))

    def duration(self, du, isdate):
        if isdate:
            return "DURATION:P%dD" % (du // 2)
        return "DURATION:PT%dH" % (12 * du) if du else "DURATION:PT0S"

    def tzxml(self):
        if not self.zone:
            return ""
        from xml.sax.saxutils import escape
        body = "\r\n".join(["BEGIN:VCALENDAR", "VERSION:2.0", "PRODID:-//verif//tz//EN"] + VTZ[self.zone]
                           + ["END:VCALENDAR", ""])
        return "<C:timezone>%s</C:timezone>" % escape(body)


def time_case_ics(sc, c, uid):
    k = c["kind"]
    lines = ["BEGIN:VCALENDAR", "VERSION:2.0", "PRODID:-//verif//cq//EN"]
    if sc.mode == "tzid":
        lines += VTZ[TZID_ZONE]
    lines.append("BEGIN:" + k)
    lines.append("UID:" + uid)
    lines.append("DTSTAMP:20200101T000000Z")
    isdate = c["isdate"]
    if c["dtstart"] >= 0:
        lines.append(sc.dt("DTSTART", c["dtstart"], isdate, force_utc=(k == "VFREEBUSY")))
    if c["dtend"] >= 0:
        lines.append(sc.dt("DTEND", c["dtend"], isdate, force_utc=(k == "VFREEBUSY")))
    if c["dur"] >= 0:
        lines.append(sc.duration(c["dur"], isdate))
    if c["due"] >= 0:
        lines.append(sc.dt("DUE", c["due"], False))
    if c["completed"] >= 0:
        lines.append(sc.dt("COMPLETED", c["completed"], False, force_utc=True))
    if c["created"] >= 0:
        lines.append(sc.dt("CREATED", c["created"], False, force_utc=True))
    if c["fbstart"] >= 0:
        lines.append("FREEBUSY:%s/%s" % (sc.utc(c["fbstart"]), sc.utc(c["fbend"])))
    if k != "VFREEBUSY":
        lines.append("SUMMARY:case")
        # free text of every repertoire (astral plane, XML-significant, combining ...): what the
        # report returns as calendar-data is compared with GET
        from . import icsgen
        import zlib
        word = icsgen.WORDS[zlib.crc32(uid.encode()) % len(icsgen.WORDS)]
        lines.append("DESCRIPTION:" + icsgen.esc(word))
    lines.append("END:" + k)
    lines.append("END:VCALENDAR")
    return ("\r\n".join(lines) + "\r\n").encode("utf-8")


def time_query(sc, kind, s, e):
    return ('<?xml version="1.0"?><C:calendar-query %s><D:prop><D:getetag/><C:calendar-data/></D:prop>'
            '<C:filter><C:comp-filter name="VCALENDAR"><C:comp-filter name="%s">'
            '<C:time-range start="%s" end="%s"/></C:comp-filter></C:comp-filter></C:filter>%s'
            '</C:calendar-query>' % (NS, kind, sc.utc(s), sc.utc(e), sc.tzxml())).encode("utf-8")


def report_hrefs(world, path, body):
    r = world.request("REPORT", path, [("Content-Type", "text/xml"), ("Depth", "1")], body)
    if r.status != 207:
        return None, "status %d" % r.status, {}
    rs, _ = alpha.parse_multistatus(r.body)
    names = set()
    data = {}
    for x in rs:
        n = urllib.parse.unquote(x.href or "").rsplit("/", 1)[-1]
        names.add(n)
        d = x.text("{urn:ietf:params:xml:ns:caldav}calendar-data")
        if d is not None:
            data[n] = d.encode("utf-8").replace(b"\r\n", b"\n")
    return names, "", data


def case_name(i):
    """member names with lower, upper and mixed case extensions"""
    return "c%04d%s" % (i, (".ics", ".ics", ".ICS", ".Ics")[i % 4])


def run_time_cases(cases, zone, mode, frontend="wsgi"):
    sc = Scenario(zone, mode)
    w = World(frontend=frontend, prefix="/")
    out = []
    try:
        assert w.request("MKCALENDAR", "/user/calendars/t/").status in range(200, 300)
        stored = {}
        for i, t in enumerate(cases):
            c = t["c"]
            name = case_name(i)
            data = time_case_ics(sc, c, "case-%d-%s-%s" % (i, zone or "utc", mode))
            r = w.request("PUT", "/user/calendars/t/" + name, [("Content-Type", "text/calendar")], data)
            stored[i] = r.status in range(200, 300)
        got = {}
        errs = {}
        datas = {}
        for kind in ("VEVENT", "VTODO", "VJOURNAL", "VFREEBUSY"):
            names, err, data = report_hrefs(w, "/user/calendars/t/", time_query(sc, kind, 2, 4))
            got[kind] = names
            errs[kind] = err
            datas.update(data)
        # a REPORT that fails as a whole says nothing about the individual cases: evaluate
        # each case of that kind alone, in a calendar of its own
        single_got = {}
        single_err = {}
        for kind in ("VEVENT", "VTODO", "VJOURNAL", "VFREEBUSY"):
            if not errs[kind]:
                continue
            for i, t in enumerate(cases):
                if t["c"]["kind"] != kind or not stored[i]:
                    continue
                p = "/user/calendars/s%04d/" % i
                w.request("MKCALENDAR", p)
                w.request("PUT", p + "x.ics", [("Content-Type", "text/calendar")],
                          time_case_ics(sc, t["c"], "single-%d" % i))
                names, err, _ = report_hrefs(w, p, time_query(sc, kind, 2, 4))
                single_got[i] = names is not None and "x.ics" in names
                single_err[i] = err
        # calendar-data of every returned resource must be what GET serves
        data_ok = True
        checked = 0
        for n, d in list(datas.items())[:120]:
            g = w.request("GET", "/user/calendars/t/" + n)
            checked += 1
            if g.status != 200 or g.body.replace(b"\r\n", b"\n") != d:
                data_ok = False
        for i, t in enumerate(cases):
            k = t["c"]["kind"]
            if i in single_got:
                e, g = single_err[i], single_got[i]
            else:
                e, g = errs[k], (got[k] is not None and (case_name(i)) in got[k])
            out.append({"c": t["c"], "zone": zone or "UTC", "mode": mode, "stored": stored[i],
                        "err": e, "got": g, "name": case_name(i)})
        return out, {"data_ok": data_ok, "data_checked": checked}
    finally:
        w.close()


# --- structural filters -------------------------------------------------------------

# concrete texts of the tokens CalQuery.tla uses for non-ASCII text
TEXT = {"EMPTYVAL": "", "NONASCII": "Caf\u00e9 Z\u00fcrich", "NONASCII-UP": "CAF\u00e9 Z\u00fcRICH",
        "ESCAPED": "Budget review, Q3; final\nnotes \\ end", "ESCAPED-UP": "BUDGET REVIEW, Q3; FINAL\nNOTES \\ END",
        "FOLDED": "A rather long summary that does not fit into one content line of seventy-five octets and is folded",
        "FOLDED-UP": "A RATHER LONG SUMMARY THAT DOES NOT FIT INTO ONE CONTENT LINE OF SEVENTY-FIVE OCTETS AND IS FOLDED"}


def ics_text(t):
    """TEXT value escaping (RFC 5545 3.3.11)"""
    return t.replace("\\", "\\\\").replace(";", "\\;").replace(",", "\\,").replace("\n", "\\n")


def obj_ics(obj, uid):
    lines = ["BEGIN:VCALENDAR", "VERSION:2.0", "PRODID:-//verif//cq//EN"]
    nev = 0
    for comp in obj:
        lines.append("BEGIN:" + comp["kind"])
        lines.append("UID:" + uid)
        lines.append("DTSTAMP:20200101T000000Z")
        if comp["kind"] == "VEVENT":
            nev += 1
            if nev == 1:
                lines.append("DTSTART:20200301T100000Z")
            else:       # a further component of the same type: an override of one instance
                lines.append("DTSTART:202003%02dT120000Z" % (7 + nev))
                lines.append("RECURRENCE-ID:202003%02dT100000Z" % (7 + nev))
        if comp["summary"]:
            lines.append("SUMMARY:" + ics_text(TEXT.get(comp["summary"], comp["summary"])))
        if comp["summary"] == "RECURRING" and comp["kind"] == "VEVENT" and nev == 1:
            lines.append("RRULE:FREQ=WEEKLY;COUNT=4")
        if comp["att"] == "plain":
            lines.append("ATTENDEE:mailto:a@example.com")
        elif comp["att"] == "accepted":
            lines.append("ATTENDEE;PARTSTAT=ACCEPTED:mailto:a@example.com")
        elif comp["att"] == "declined":
            lines.append("ATTENDEE;PARTSTAT=DECLINED:mailto:a@example.com")
        lines.append("END:" + comp["kind"])
    lines.append("END:VCALENDAR")
    return ("\r\n".join(lines) + "\r\n").encode("utf-8")


def tm_xml(tm):
    if not tm["on"]:
        return ""
    from xml.sax.saxutils import escape
    return '<C:text-match collation="%s" negate-condition="%s">%s</C:text-match>' % (
        tm["coll"], "yes" if tm["neg"] else "no", escape(TEXT.get(tm["needle"], tm["needle"])))


def filter_xml(f):
    inner = ""
    if f["cnd"]:
        inner = "<C:is-not-defined/>"
    elif f["prop"]:
        pin = ""
        if f["pnd"]:
            pin = "<C:is-not-defined/>"
        else:
            pin = tm_xml(f["tm"])
            if f["param"]:
                qin = "<C:is-not-defined/>" if f["qnd"] else tm_xml(f["ptm"])
                pin += '<C:param-filter name="%s">%s</C:param-filter>' % (f["param"], qin)
        inner = '<C:prop-filter name="%s">%s</C:prop-filter>' % (f["prop"], pin)
    return ('<?xml version="1.0"?><C:calendar-query %s><D:prop><D:getetag/></D:prop>'
            '<C:filter><C:comp-filter name="VCALENDAR"><C:comp-filter name="%s">%s</C:comp-filter>'
            '</C:comp-filter></C:filter></C:calendar-query>' % (NS, f["comp"], inner)).encode("utf-8")


def run_filter_cases(table, frontend="wsgi", threshold=None):
    """threshold: after how many uses of a filter key the store answers from its index
    (None = the default; 0 = at once; a huge number = never: every query parses the objects)."""
    w = World(frontend=frontend, prefix="/", index_threshold=threshold)
    try:
        assert w.request("MKCALENDAR", "/user/calendars/f/").status in range(200, 300)
        objs = []
        for t in table:
            key = repr([(c["kind"], c["summary"], c["att"]) for c in t["obj"]])
            if key not in objs:
                objs.append(key)
                name = "o%03d.ics" % (len(objs) - 1)
                r = w.request("PUT", "/user/calendars/f/" + name, [("Content-Type", "text/calendar")],
                              obj_ics(t["obj"], "obj-%d" % (len(objs) - 1)))
                assert r.status in range(200, 300), (r.status, r.body[:300])
        # damaged files next to some of the objects (they arrived by git push / a disk problem):
        # they match nothing - placed so that each sorts directly behind an object
        broken = []
        try:
            st = w.backend.get_resource("/user/calendars/f").store
            for k in range(0, len(objs), max(1, len(objs) // 6)):
                bn = "o%03d~broken.ics" % k
                st.import_one(bn, "application/octet-stream", [b"BEGIN:VCALENDAR\r\nVERSION:2.0\r\nBEGIN:VEVENT\r\nSUMMARY:Meeting"])
                broken.append(bn)
        except Exception:
            broken = []
        # a client asks for the expanded form of everything in March 2020 (a read: it must not
        # change what later queries answer)
        exp = ('<?xml version="1.0"?><C:calendar-query %s><D:prop><D:getetag/><C:calendar-data>'
               '<C:expand start="20200301T000000Z" end="20200401T000000Z"/></C:calendar-data></D:prop>'
               '<C:filter><C:comp-filter name="VCALENDAR"><C:comp-filter name="VEVENT"/></C:comp-filter></C:filter>'
               '</C:calendar-query>' % NS).encode("utf-8")
        w.request("REPORT", "/user/calendars/f/", [("Content-Type", "text/xml"), ("Depth", "1")], exp)
        cache = {}
        out = []
        for t in table:
            fk = repr(sorted(t["f"].items(), key=lambda kv: kv[0]))
            if fk not in cache:
                cache[fk] = report_hrefs(w, "/user/calendars/f/", filter_xml(t["f"]))
            names, err, _ = cache[fk]
            key = repr([(c["kind"], c["summary"], c["att"]) for c in t["obj"]])
            name = "o%03d.ics" % objs.index(key)
            if names is not None and any(b in names for b in broken) and not err:
                err = "damaged-member-returned"
            out.append({"f": t["f"], "obj": t["obj"], "err": err,
                        "thr": "index" if threshold == 0 else "naive" if threshold else "default",
                        "got": (names is not None and name in names)})
        return out
    finally:
        w.close()


# --- free-busy-query (extension beyond the listed properties) --------------------------

def run_freebusy_cases(cases, frontend="wsgi"):
    import datetime as _dt
    import re
    sc = Scenario(None, "utc")
    w = World(frontend=frontend, prefix="/")
    out = []
    try:
        k = 0
        for t in cases:
            c = t["c"]
            if c["kind"] != "VEVENT":
                continue
            for transp, status in (("OPAQUE", "CONFIRMED"), ("TRANSPARENT", "CONFIRMED"),
                                   ("OPAQUE", "CANCELLED"), ("OPAQUE", "TENTATIVE")):
                if (transp, status) != ("OPAQUE", "CONFIRMED") and k % 3:
                    k += 1
                    continue
                k += 1
                p = "/user/calendars/fb%04d/" % k
                w.request("MKCALENDAR", p)
                data = time_case_ics(sc, c, "fb-%d" % k).replace(
                    b"SUMMARY:case", ("SUMMARY:case\r\nTRANSP:%s\r\nSTATUS:%s" % (transp, status)).encode())
                r = w.request("PUT", p + "e.ics", [("Content-Type", "text/calendar")], data)
                if r.status not in range(200, 300):
                    continue
                body = ('<?xml version="1.0"?><C:free-busy-query %s><C:time-range start="%s" end="%s"/>'
                        '</C:free-busy-query>' % (NS, sc.utc(2), sc.utc(4))).encode()
                r = w.request("REPORT", p, [("Content-Type", "text/xml"), ("Depth", "1")], body)
                rec = {"c": c, "transp": transp, "status": status, "got": [-1, -1], "err": ""}
                if r.status != 200:
                    rec["err"] = "status %d" % r.status
                else:
                    periods = []
                    for ln in alpha.unfold(r.body):
                        name, params, value = alpha.split_content_line(ln)
                        if name == b"FREEBUSY" and value:
                            periods.extend(value.decode().split(","))
                    if len(periods) > 1:
                        rec["err"] = "several periods"
                    elif periods:
                        a, _, b = periods[0].partition("/")

                        def grid(ts):
                            d = _dt.datetime.strptime(ts, "%Y%m%dT%H%M%SZ").replace(tzinfo=_dt.timezone.utc)
                            return int(round((d - sc.instant(0)) / UNIT))
                        g0 = grid(a)
                        if b.startswith("P") or b.startswith("-P"):
                            m = re.fullmatch(r"P(?:(\d+)D)?(?:T(?:(\d+)H)?(?:(\d+)M)?(?:(\d+)S)?)?", b)
                            hrs = (int(m.group(1) or 0) * 24 + int(m.group(2) or 0)) if m else 0
                            g1 = g0 + hrs // 12
                        else:
                            g1 = grid(b)
                        rec["got"] = [g0, g1]
                out.append(rec)
        return out
    finally:
        w.close()
