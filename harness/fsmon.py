"""File-system monitor built on sys.addaudithook (no change to the repository).

One process-wide hook dispatches to the currently installed *monitor*:
  - Recorder:      list of (event, path(s), write?) per thread          (C13, C04 traces)
  - before-mutation callbacks: crash imager (C04), fault injector, scheduler gates (C05)
Audit hooks cannot be removed, so the hook is installed once and is inert
unless a monitor is active.
"""
import errno
import os
import sys
import threading

_installed = False
_monitor = None
_lock = threading.Lock()

WRITE_FLAGS = os.O_WRONLY | os.O_RDWR | os.O_CREAT | os.O_TRUNC | os.O_APPEND

EVENTS = {
    "open", "os.rename", "os.remove", "os.mkdir", "os.rmdir", "os.listdir", "os.scandir",
    "os.chmod", "os.truncate", "shutil.rmtree", "os.link", "os.symlink", "os.utime",
    "shutil.copyfile", "shutil.move", "os.chown", "shutil.copytree", "os.walk",
    "glob.glob", "tempfile.mkstemp", "tempfile.mkdtemp", "os.mkfifo", "os.mknod",
}


def _dec(p):
    if isinstance(p, int):
        return None   # file descriptor
    try:
        return os.fsdecode(p)
    except TypeError:
        return None


def _hook(event, args):
    m = _monitor
    if m is None or event not in EVENTS:
        return
    if getattr(m, "only_thread", None) is not None and threading.get_ident() not in m.only_thread:
        return
    try:
        paths = []
        write = False
        if event == "open":
            p = _dec(args[0])
            if p is None:
                return
            paths = [p]
            mode, flags = args[1], args[2]
            if flags is not None and (flags & WRITE_FLAGS):
                write = True
            elif isinstance(mode, str) and any(c in mode for c in "wax+"):
                write = True
        elif event in ("os.rename", "os.link", "os.symlink", "shutil.copyfile", "shutil.move",
                       "shutil.copytree"):
            paths = [x for x in (_dec(args[0]), _dec(args[1])) if x]
            write = True
        elif event in ("os.listdir", "os.scandir", "os.walk", "glob.glob"):
            p = _dec(args[0]) if args and args[0] is not None else "."
            paths = [p] if p else []
        else:
            p = _dec(args[0]) if args else None
            paths = [p] if p else []
            write = event not in ("os.utime",)
    except Exception:
        return
    if not paths:
        return
    m.on_event(event, paths, write)


def install():
    global _installed
    with _lock:
        if not _installed:
            sys.addaudithook(_hook)
            _installed = True


class Monitor:
    """Base monitor: records events; subclasses override before_mutation()."""

    def __init__(self, root=None, only_threads=None):
        self.root = os.path.realpath(root) if root else None
        self.events = []
        self.only_thread = set(only_threads) if only_threads else None
        self._reent = threading.local()

    def relevant(self, paths):
        if self.root is None:
            return True
        for p in paths:
            ap = os.path.abspath(p)
            if ap == self.root or ap.startswith(self.root + os.sep):
                return True
        return False

    def on_event(self, event, paths, write):
        if getattr(self._reent, "busy", False):
            return
        self._reent.busy = True
        try:
            self.events.append((threading.get_ident(), event, tuple(paths), write))
            if write:
                self.before_mutation(event, paths)
        finally:
            self._reent.busy = False

    def before_mutation(self, event, paths):
        pass

    def __enter__(self):
        global _monitor
        install()
        self._prev = _monitor
        _monitor = self
        return self

    def __exit__(self, *exc):
        global _monitor
        _monitor = self._prev
        return False


class FaultInjector(Monitor):
    """Raise OSError(ENOSPC) at the k-th mutating event below root (1-based)."""

    def __init__(self, root, k):
        super().__init__(root)
        self.k = k
        self.n = 0
        self.fired = None

    def before_mutation(self, event, paths):
        if not self.relevant(paths):
            return
        if event in ("os.remove", "os.unlink", "os.rmdir"):
            return      # removing a name does not need space: no "disk full" there
        self.n += 1
        if self.n == self.k:
            self.fired = (event, paths)
            raise OSError(errno.ENOSPC, "injected: no space left on device")


class _FullDiskFile:
    """A file that was opened (and truncated) all right, on a disk that has no room for data."""

    def __init__(self, real):
        object.__setattr__(self, "_real", real)

    def write(self, data):
        raise OSError(errno.ENOSPC, "injected: no space left on device")

    def writelines(self, lines):
        raise OSError(errno.ENOSPC, "injected: no space left on device")

    def __enter__(self):
        return self

    def __exit__(self, *a):
        self._real.close()
        return False

    def __getattr__(self, name):
        return getattr(self._real, name)


class WriteFaultInjector:
    """The k-th file opened for writing below root (1-based) opens normally - an existing file
    is truncated by that - but every write to it fails with ENOSPC: what a full disk does."""

    def __init__(self, root, k):
        self.root = os.path.realpath(root)
        self.k = k
        self.n = 0
        self.fired = None

    def _below(self, path):
        try:
            rp = os.path.realpath(path)
        except (OSError, TypeError, ValueError):
            return False
        return rp == self.root or rp.startswith(self.root + os.sep)

    def _hit(self, path):
        if self.fired is None and isinstance(path, (str, bytes, os.PathLike)) and self._below(os.fsdecode(path)):
            self.n += 1
            if self.n == self.k:
                self.fired = ("open", [os.fsdecode(path)])
                return True
        return False

    def __enter__(self):
        import builtins
        self._open, self._fdopen = builtins.open, os.fdopen
        inj = self

        def _writing(mode):
            return isinstance(mode, str) and any(ch in mode for ch in "wax+")

        def open_(file, mode="r", *a, **kw):
            f = inj._open(file, mode, *a, **kw)
            if _writing(mode) and not isinstance(file, int) and inj._hit(file):
                return _FullDiskFile(f)
            return f

        def fdopen_(fd, mode="r", *a, **kw):
            f = inj._fdopen(fd, mode, *a, **kw)
            if _writing(mode):
                try:
                    path = os.readlink("/proc/self/fd/%d" % fd)
                except OSError:
                    path = None
                if path and inj._hit(path):
                    return _FullDiskFile(f)
            return f
        builtins.open, os.fdopen = open_, fdopen_
        return self

    def __exit__(self, *a):
        import builtins
        builtins.open, os.fdopen = self._open, self._fdopen
        return False


def gate_name(event, paths, root):
    """Abstract a mutating (or index/ref reading) event of a git/vdir store to a gate name
    (DESIGN appendix A)."""
    p = paths[-1] if event == "os.rename" else paths[0]
    rel = os.path.relpath(p, root)
    src = os.path.relpath(paths[0], root) if event == "os.rename" else rel
    parts = rel.split(os.sep)
    if parts[0] == ".git":
        parts = parts[1:]
        git = True
    else:
        git = os.path.exists(os.path.join(root, "HEAD")) and not os.path.isdir(os.path.join(root, ".git"))
    if git:
        tail = "/".join(parts)
        if tail == "index.lock" and event == "open":
            return "LockIndex"
        if tail == "index" and event == "os.rename":
            return "WriteIndex"
        if tail == "index.lock" and event == "os.remove":
            return "AbortIndex"
        if tail.startswith("objects/"):
            if event == "os.mkdir":
                return "MkObjDir"
            if event == "open":
                return "ObjTmp"
            if event == "os.rename":
                return "AddObj"
            if event == "os.chmod":
                return "ObjChmod"
            if event == "os.remove":
                return "ObjRm"
            return "Obj:" + event
        if tail.startswith("refs/heads/") or tail == "HEAD":
            if event == "open" and tail.endswith(".lock"):
                return "LockRef"
            if event == "os.rename":
                return "MoveRef"
            if event == "os.remove":
                return "AbortRef"
            return "Ref:" + event
        if tail.startswith("logs/"):
            return "Reflog"
        if tail in ("config.lock", "description.lock") and event == "open":
            return "LockCfg"
        if tail in ("config", "description") and event == "os.rename":
            return "WriteCfg"
        return "Git:" + event + ":" + tail
    # work tree / vdir file
    if event == "open":
        return "WriteTmp" if rel.endswith(".tmp") else "WriteFile"
    if event == "os.rename":
        return "Rename"
    if event == "os.remove":
        return "Remove"
    if event == "os.mkdir":
        return "Mkdir"
    return "FS:" + event
