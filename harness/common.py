"""Shared plumbing for the checks: tiers, seeds, findings, evidence, output contract."""
import json
import os
import sys
import time

VERIF = os.path.dirname(os.path.dirname(os.path.abspath(__file__)))
EVIDENCE_DIR = os.path.join(VERIF, "evidence")
OUT_DIR = os.path.join(VERIF, "out")
FINDINGS_FILE = os.path.join(VERIF, "known_findings.json")


def seed_from_env():
    try:
        return int(os.environ.get("VERIF_SEED", "0"))
    except ValueError:
        return 0


def tier_from(args_tier):
    t = os.environ.get("VERIF_TIER") or args_tier or "quick"
    return t if t in ("quick", "thorough") else "quick"


def load_findings():
    with open(FINDINGS_FILE) as f:
        data = json.load(f)
    return data["findings"]


def open_devs(module=None):
    """Deviation ids of findings that are still open (fixed ones suppress nothing)."""
    out = {}
    for f in load_findings():
        if f.get("status") == "open" and f.get("dev"):
            if module is None or f.get("module") == module:
                out[f["dev"]] = f
    return out


class Report:
    """Collects what a check run found and renders the output contract."""

    def __init__(self, prop, tier, seed, level):
        self.prop = prop
        self.tier = tier
        self.seed = seed
        self.level = level
        self.t0 = time.time()
        self.violations = []      # (summary, replay path)
        self.known = {}           # dev id -> description
        self.notes = []
        self.coverage = {}
        self.assumptions = []

    def violation(self, summary, replay_obj):
        os.makedirs(os.path.join(OUT_DIR, "replays"), exist_ok=True)
        path = os.path.join(OUT_DIR, "replays", "%s-%d.json" % (self.prop, len(self.violations) + 1))
        with open(path, "w") as f:
            json.dump(replay_obj, f, indent=1, default=str)
        self.violations.append((summary, path))
        return path

    def known_finding(self, dev, text):
        self.known.setdefault(dev, text)

    def note(self, text):
        if len(self.notes) < 40:
            self.notes.append(text)

    def finish(self):
        """Write the evidence file, print the verdict lines, return the exit status."""
        os.makedirs(EVIDENCE_DIR, exist_ok=True)
        cov = dict(self.coverage)
        cov.setdefault("known_findings_hit", sorted(self.known))
        cov.setdefault("notes", self.notes[:20])
        ev = {
            "property_id": self.prop,
            "tier": self.tier,
            "seed": self.seed,
            "level": self.level,
            "coverage": cov,
            "assumptions": self.assumptions,
            "wall_s": round(time.time() - self.t0, 2),
            "violations": len(self.violations),
        }
        with open(os.path.join(EVIDENCE_DIR, "%s.json" % self.prop), "w") as f:
            json.dump(ev, f, indent=1, default=str)
        for n in self.notes:
            print("NOTE: " + n)
        for dev, text in sorted(self.known.items()):
            print("KNOWN-FINDING: property=%s %s [%s]" % (self.prop, text, dev))
        seen = set()
        for summary, path in self.violations:
            if summary in seen and len(seen) > 10:
                continue
            seen.add(summary)
            print("VIOLATION property=%s replay=%s" % (self.prop, path))
            print("  " + summary)
        sys.stdout.flush()
        return 1 if self.violations else 0


def machinery_failure(msg):
    print("MACHINERY-FAILURE: " + msg)
    sys.stdout.flush()
    sys.exit(2)
