"""Abstraction (alpha): from concrete HTTP answers / repository contents to the
small vocabulary the TLA+ trace specifications talk about.

Contains the *independent* iCalendar / vCard content-line tokenizer (shares no
code with xandikos, icalendar or vobject) and the multistatus parser.
"""
import re
import xml.etree.ElementTree as ET

DAV = "{DAV:}"
CALDAV = "{urn:ietf:params:xml:ns:caldav}"
CARDDAV = "{urn:ietf:params:xml:ns:carddav}"
CS = "{http://calendarserver.org/ns/}"
APPLE = "{http://apple.com/ns/ical/}"
INF = "{http://inf-it.com/ns/ab/}"


class Interner:
    """value -> small positive integer, per trace."""

    def __init__(self):
        self.ids = {}
        self.vals = [None]

    def __call__(self, v):
        i = self.ids.get(v)
        if i is None:
            i = len(self.vals)
            self.ids[v] = i
            self.vals.append(v)
        return i

    def known(self, v):
        return self.ids.get(v)

    def value(self, i):
        return self.vals[i]

    def __len__(self):
        return len(self.vals) - 1


# --------------------------------------------------------------------------
# content lines (RFC 5545 3.1 / RFC 6350 3.2)
# --------------------------------------------------------------------------

def unfold(data: bytes):
    text = data.replace(b"\r\n", b"\n").replace(b"\r", b"\n")
    out = []
    for ln in text.split(b"\n"):
        if ln[:1] in (b" ", b"\t") and out:
            out[-1] += ln[1:]
        else:
            out.append(ln)
    return [ln for ln in out if ln != b""]


def split_content_line(ln: bytes):
    """-> (NAME, ((PARAM, value), ...), value) ; quoted parameter values respected."""
    i = 0
    n = len(ln)
    inq = False
    name_end = None
    while i < n:
        ch = ln[i:i + 1]
        if ch == b'"':
            inq = not inq
        elif not inq and ch == b":":
            name_end = i
            break
        i += 1
    if name_end is None:
        return (ln.upper(), (), None)
    head, value = ln[:name_end], ln[name_end + 1:]
    parts = []
    cur = b""
    inq = False
    for k in range(len(head)):
        ch = head[k:k + 1]
        if ch == b'"':
            inq = not inq
            cur += ch
        elif ch == b";" and not inq:
            parts.append(cur)
            cur = b""
        else:
            cur += ch
    parts.append(cur)
    name = parts[0].upper()
    params = []
    for p in parts[1:]:
        k, _, v = p.partition(b"=")
        v = v.strip()
        if len(v) >= 2 and v[:1] == b'"' and v[-1:] == b'"':
            v = v[1:-1]
        params.append((k.strip().upper(), v))
    return (name, tuple(sorted(params)), value)


_TEXT_PROPS = {b"SUMMARY", b"DESCRIPTION", b"LOCATION", b"COMMENT", b"CATEGORIES",
               b"CONTACT", b"RESOURCES", b"FN", b"N", b"NOTE", b"NICKNAME", b"ORG",
               b"TITLE", b"ADR"}


_DUR = re.compile(rb"^([+-]?)P(?:(\d+)W)?(?:(\d+)D)?(?:T(?:(\d+)H)?(?:(\d+)M)?(?:(\d+)S)?)?$")


def _norm_value(name, value):
    """Value-level equivalences of RFC 5545 that a re-serialisation may use: the two
    spellings of the newline escape, the order of recurrence rule parts, and the many
    spellings of one duration (PT0S = P0D, PT60M = PT1H)."""
    if value is None:
        return None
    if name in _TEXT_PROPS:
        # \N and \n are the same escape (RFC 5545 3.3.11)
        return value.replace(b"\\N", b"\\n")
    if name in (b"RRULE", b"EXRULE"):
        return b";".join(sorted(p.strip().upper() for p in value.split(b";") if p.strip()))
    if name in (b"DURATION", b"TRIGGER", b"REFRESH-INTERVAL"):
        m = _DUR.match(value.strip())
        if m and value.strip() not in (b"P", b"-P", b"+P"):
            sign = -1 if m.group(1) == b"-" else 1
            w, d, h, mi, sec = (int(x) if x else 0 for x in m.groups()[1:])
            return b"duration:%d" % (sign * (((w * 7 + d) * 24 + h) * 3600 + mi * 60 + sec))
    return value


def parse_components(data: bytes):
    """-> nested tuple  (NAME, props(sorted tuple), children(tuple, in order)) or None."""
    lines = [split_content_line(ln) for ln in unfold(data)]
    stack = [["", [], []]]
    for (name, params, value) in lines:
        if name == b"BEGIN" and value is not None:
            stack.append([value.strip().upper(), [], []])
        elif name == b"END" and value is not None:
            if len(stack) < 2 or stack[-1][0] != value.strip().upper():
                return None
            comp = stack.pop()
            stack[-1][2].append((comp[0], tuple(sorted(comp[1], key=repr)), tuple(comp[2])))
        else:
            stack[-1][1].append((name, params, _norm_value(name, value)))
    if len(stack) != 1 or stack[0][1]:
        return None
    return tuple(stack[0][2])


def canon_ics(data: bytes):
    """Property-for-property canonical form of an iCalendar stream (hashable)."""
    c = parse_components(data)
    if c is None:
        return ("unparsed", data)
    return ("ics", c)


def first_uid(data: bytes):
    """UID of the first sub-component of the first VCALENDAR that has one."""
    c = parse_components(data)
    if not c:
        return None
    for top in c:
        if top[0] != b"VCALENDAR":
            continue
        for sub in top[2]:
            for (name, params, value) in sub[1]:
                if name == b"UID":
                    return value.decode("utf-8", "replace")
    return None


def unescape_text(v: str):
    out = []
    i = 0
    while i < len(v):
        if v[i] == "\\" and i + 1 < len(v):
            nx = v[i + 1]
            out.append("\n" if nx in "nN" else nx)
            i += 2
        else:
            out.append(v[i])
            i += 1
    return "".join(out)


# --------------------------------------------------------------------------
# multistatus
# --------------------------------------------------------------------------

def status_code(text):
    if not text:
        return None
    m = re.search(r"\b(\d{3})\b", text)
    return int(m.group(1)) if m else None


class MsResponse:
    def __init__(self, href, status, props, error, raw):
        self.href = href          # as sent (still percent-encoded)
        self.status = status      # int or None (response-level status)
        self.props = props        # tag -> (status code, element)
        self.error = error        # tag of first child of DAV:error, or None
        self.raw = raw

    def prop_ok(self, tag):
        p = self.props.get(tag)
        if p is None or p[0] != 200:
            return None
        return p[1]

    def text(self, tag):
        el = self.prop_ok(tag)
        return None if el is None else (el.text or "")


def parse_multistatus(body: bytes):
    """-> (responses, sync_token or None); raises ValueError if not a multistatus."""
    try:
        root = ET.fromstring(body)
    except ET.ParseError as e:
        raise ValueError("unparseable xml: %s" % e)
    if root.tag != DAV + "multistatus":
        raise ValueError("not a multistatus: %s" % root.tag)
    out = []
    token = None
    for r in root:
        if r.tag == DAV + "sync-token":
            token = r.text or ""
            continue
        if r.tag != DAV + "response":
            continue
        href = None
        status = None
        props = {}
        error = None
        for ch in r:
            if ch.tag == DAV + "href" and href is None:
                href = ch.text or ""
            elif ch.tag == DAV + "status":
                status = status_code(ch.text)
            elif ch.tag == DAV + "error":
                error = ch[0].tag if len(ch) else ""
            elif ch.tag == DAV + "propstat":
                st = None
                pl = []
                for pc in ch:
                    if pc.tag == DAV + "status":
                        st = status_code(pc.text)
                    elif pc.tag == DAV + "prop":
                        pl = list(pc)
                for p in pl:
                    props[p.tag] = (st, p)
        out.append(MsResponse(href, status, props, error, r))
    return out, token


def response_class(resp):
    """Outcome class of a response (DESIGN 2.3)."""
    s = resp.status
    cond = ""
    if s == 207:
        # xandikos answers failed CalDAV preconditions as a 207 with an inner status
        try:
            rs, _ = parse_multistatus(resp.body)
        except ValueError:
            rs = []
        inner = [r for r in rs if r.status is not None and r.status >= 400]
        if len(rs) == 1 and inner:
            s = inner[0].status
            cond = inner[0].error or ""
    elif 400 <= (s or 0) < 600 and resp.body[:1] == b"<":
        try:
            root = ET.fromstring(resp.body)
            for el in root.iter(DAV + "error"):
                if len(el):
                    cond = el[0].tag
        except ET.ParseError:
            pass
    if s is None or s == 0:
        cls = "error"
    elif 200 <= s < 300:
        cls = "ok"
    elif s == 304:
        cls = "notmodified"
    elif s == 404:
        cls = "notfound"
    elif s == 412:
        cls = "precond"
    elif s == 423:
        cls = "locked"
    elif 400 <= s < 500:
        cls = "refused"
    elif 300 <= s < 400:
        cls = "redirect"
    else:
        cls = "error"
    short = cond.rsplit("}", 1)[-1] if cond else ""
    return cls, short
