"""Server worlds: a xandikos server over a scratch directory, reachable through
the WSGI callable or a real aiohttp server on loopback, restartable.

Imports xandikos from /repo's working tree (PYTHONPATH is set by ./check).
"""
import asyncio
import io
import os
import shutil
import socket
import subprocess
import sys
import tempfile
import threading
import urllib.parse

from . import compat  # noqa: F401  (must be first)

from xandikos import web as xweb  # noqa: E402
from xandikos.store.git import BareGitStore, TreeGitStore  # noqa: E402
from xandikos.icalendar import ICalendarFile  # noqa: E402
from xandikos.vcard import VCardFile  # noqa: E402

SCRATCH_ROOT = os.environ.get("VERIF_SCRATCH", "/var/tmp")


def mkscratch(prefix="xv-"):
    return tempfile.mkdtemp(prefix=prefix, dir=SCRATCH_ROOT)


class Response:
    __slots__ = ("status", "headers", "body")

    def __init__(self, status, headers, body):
        self.status = status
        self.headers = headers  # list of (name, value)
        self.body = body

    def header(self, name, default=None):
        name = name.lower()
        for k, v in self.headers:
            if k.lower() == name:
                return v
        return default

    def __repr__(self):
        return "<Response %s %r %r>" % (self.status, self.headers, self.body[:200])


def percent_decode_latin1(raw_path):
    """What a PEP 3333 server puts into PATH_INFO for a raw request path."""
    return urllib.parse.unquote_to_bytes(raw_path).decode("iso-8859-1")


class _AioServer:
    """A real aiohttp server on a loopback port, with the routing of web.main."""

    def __init__(self, app, route_prefix):
        self.app = app
        self.route_prefix = route_prefix
        self.loop = asyncio.new_event_loop()
        self.port = None
        self._ready = threading.Event()
        self._thread = threading.Thread(target=self._run, daemon=True)
        self._thread.start()
        self._ready.wait(30)
        if self.port is None:
            raise RuntimeError("aiohttp server did not start")

    def _run(self):
        from aiohttp import web

        asyncio.set_event_loop(self.loop)
        main_app = self.app
        route_prefix = self.route_prefix

        async def xandikos_handler(request):
            return await main_app.aiohttp_handler(request, route_prefix)

        async def setup():
            app = web.Application()
            for path in xweb.WELLKNOWN_DAV_PATHS:
                app.router.add_route(
                    "*", path, xweb.RedirectDavHandler(route_prefix).__call__
                )
            if route_prefix.strip("/"):
                xandikos_app = web.Application()
                xandikos_app.router.add_route("*", "/{path_info:.*}", xandikos_handler)

                async def redirect_to_subprefix(request):
                    return web.HTTPFound(route_prefix)

                app.router.add_route("*", "/", redirect_to_subprefix)
                app.add_subapp(route_prefix, xandikos_app)
            else:
                app.router.add_route("*", "/{path_info:.*}", xandikos_handler)
            self.runner = web.AppRunner(app)
            await self.runner.setup()
            site = web.TCPSite(self.runner, "127.0.0.1", 0)
            await site.start()
            self.port = site._server.sockets[0].getsockname()[1]
            self._ready.set()

        self.loop.run_until_complete(setup())
        self.loop.run_forever()

    def stop(self):
        async def cleanup():
            await self.runner.cleanup()

        fut = asyncio.run_coroutine_threadsafe(cleanup(), self.loop)
        try:
            fut.result(10)
        except Exception:
            pass
        self.loop.call_soon_threadsafe(self.loop.stop)
        self._thread.join(10)

    def raw(self, method, raw_target, headers, body, chunked=False, segmented=False):
        """Send one HTTP/1.1 request with the target exactly as given.  chunked: the body travels
        with Transfer-Encoding: chunked in pieces of uneven sizes instead of a Content-Length.
        segmented: the request reaches the server in several TCP segments, a moment apart."""
        s = socket.create_connection(("127.0.0.1", self.port), timeout=60)
        try:
            lines = ["%s %s HTTP/1.1" % (method, raw_target), "Host: localhost", "Connection: close"]
            hdrs = list(headers)
            payload = body or b""
            if body is not None and chunked:
                hdrs.append(("Transfer-Encoding", "chunked"))
                sizes = [1, 7, 3, 64, 2, 1000, 5, 16384]
                out, pos, k = [], 0, 0
                while pos < len(body):
                    n = sizes[k % len(sizes)]
                    piece = body[pos:pos + n]
                    out.append(b"%x\r\n" % len(piece) + piece + b"\r\n")
                    pos += n
                    k += 1
                out.append(b"0\r\n\r\n")
                payload = b"".join(out)
            elif body is not None:
                hdrs.append(("Content-Length", str(len(body))))
            for k, v in hdrs:
                lines.append("%s: %s" % (k, v))
            data = ("\r\n".join(lines) + "\r\n\r\n").encode("iso-8859-1") + payload
            if segmented and len(payload) > 8:
                import time as _time
                head = len(data) - len(payload)
                cuts = [head + max(1, len(payload) // 3), head + max(2, 2 * len(payload) // 3)]
                s.setsockopt(socket.IPPROTO_TCP, socket.TCP_NODELAY, 1)
                prev = 0
                for cut in cuts + [len(data)]:
                    s.sendall(data[prev:cut])
                    prev = cut
                    _time.sleep(0.04)
            else:
                s.sendall(data)
            chunks = []
            while True:
                c = s.recv(65536)
                if not c:
                    break
                chunks.append(c)
        finally:
            s.close()
        return parse_http_response(b"".join(chunks), method)


def parse_http_response(data, method):
    head, _, rest = data.partition(b"\r\n\r\n")
    lines = head.split(b"\r\n")
    if not lines or not lines[0].startswith(b"HTTP/"):
        return Response(0, [], data)
    status = int(lines[0].split(b" ", 2)[1])
    headers = []
    for ln in lines[1:]:
        k, _, v = ln.partition(b":")
        headers.append((k.decode("iso-8859-1").strip(), v.decode("iso-8859-1").strip()))
    te = [v for k, v in headers if k.lower() == "transfer-encoding"]
    if te and "chunked" in te[0].lower():
        body = b""
        while rest:
            ln, _, rest = rest.partition(b"\r\n")
            try:
                n = int(ln.split(b";")[0], 16)
            except ValueError:
                break
            if n == 0:
                break
            body += rest[:n]
            rest = rest[n + 2:]
    else:
        body = rest
        # a client reads exactly as many octets as the server announces
        cl = [v for k, v in headers if k.lower() == "content-length"]
        if cl and method != "HEAD":
            try:
                body = rest[:int(cl[0])]
            except ValueError:
                pass
    return Response(status, headers, body)


def _forget_open_stores():
    """A process that ends forgets the stores it had open (the cache the server keeps them in is
    an implementation detail: when it is not an lru_cache there is nothing to clear here)."""
    clear = getattr(xweb.open_store_from_path, "cache_clear", None)
    if clear is not None:
        clear()


class World:
    """One server deployment over one data directory."""

    def __init__(self, frontend="wsgi", prefix="/", principal="/user/",
                 index_threshold=None, root=None, autocreate=True, defaults=False,
                 paranoid=False, strict=True):
        assert frontend in ("wsgi", "aiohttp")
        self.strict = strict
        self.frontend = frontend
        self.prefix = prefix if prefix.endswith("/") else prefix + "/"
        self.principal = principal
        self.index_threshold = index_threshold
        self.paranoid = paranoid
        self.autocreate = autocreate
        self.defaults = defaults
        self.own_root = root is None
        self.base = mkscratch() if root is None else None
        self.root = os.path.join(self.base, "data") if root is None else root
        self._aio = None
        self.app = None
        self.backend = None
        self.start()

    # -- life cycle -------------------------------------------------------
    def start(self):
        _forget_open_stores()
        backend = xweb.XandikosBackend(
            self.root, paranoid=self.paranoid, index_threshold=self.index_threshold
        )
        backend._mark_as_principal(self.principal)
        if self.autocreate or self.defaults:
            if not os.path.isdir(self.root):
                os.makedirs(self.root)
            backend.create_principal(self.principal, create_defaults=self.defaults)
        self.backend = backend
        self.app = xweb.XandikosApp(backend, current_user_principal=self.principal, strict=self.strict)
        if self.frontend == "aiohttp":
            self._aio = _AioServer(self.app, self.prefix)

    def stop(self):
        if self._aio is not None:
            self._aio.stop()
            self._aio = None
        self.app = None
        self.backend = None
        _forget_open_stores()

    def restart(self, defaults=None):
        """Stop and start again; defaults: start with (True) / without (False) --defaults."""
        self.stop()
        if defaults is not None:
            self.defaults = bool(defaults)
        self.start()

    def close(self):
        self.stop()
        if self.base is not None:
            shutil.rmtree(self.base, ignore_errors=True)

    # -- paths ------------------------------------------------------------
    def url(self, path):
        """Logical DAV path ('/user/calendars/x/') -> request target under the prefix."""
        return self.prefix.rstrip("/") + path

    def fspath(self, path):
        return os.path.join(self.root, path.lstrip("/"))

    # -- requests ---------------------------------------------------------
    def request(self, method, path, headers=(), body=None, quoted=False):
        """Request on a logical path; the path is percent-encoded unless quoted."""
        target = self.url(path)
        if not quoted:
            target = urllib.parse.quote(target, safe="/")
        return self.raw(method, target, headers, body)

    def raw(self, method, raw_target, headers=(), body=None):
        """Send a request whose target is exactly raw_target (already encoded)."""
        if self.frontend == "aiohttp":
            chunked, self.chunked_next = getattr(self, "chunked_next", False), False
            segmented, self.segmented_next = getattr(self, "segmented_next", False), False
            return self._aio.raw(method, raw_target, headers, body, chunked=chunked, segmented=segmented)
        self.chunked_next = False
        self.segmented_next = False
        return self._wsgi(method, raw_target, headers, body)

    def _wsgi(self, method, raw_target, headers, body):
        path, _, query = raw_target.partition("?")
        script_name = self.prefix.rstrip("/")
        decoded = percent_decode_latin1(path)
        if script_name and not decoded.startswith(script_name):
            # outside the mount point: a real server would not route it here
            return Response(404, [], b"outside mount point")
        path_info = decoded[len(script_name):]
        environ = {
            "REQUEST_METHOD": method,
            "SCRIPT_NAME": script_name,
            "PATH_INFO": path_info,
            "QUERY_STRING": query,
            "SERVER_NAME": "localhost",
            "SERVER_PORT": "80",
            "SERVER_PROTOCOL": "HTTP/1.1",
            "HTTP_HOST": "localhost",
            "wsgi.version": (1, 0),
            "wsgi.url_scheme": "http",
            "wsgi.input": io.BytesIO(body or b""),
            "wsgi.errors": sys.stderr,
            "wsgi.multithread": False,
            "wsgi.multiprocess": False,
            "wsgi.run_once": False,
        }
        if body is not None:
            environ["CONTENT_LENGTH"] = str(len(body))
        else:
            environ["CONTENT_LENGTH"] = "0"
        for k, v in headers:
            kl = k.lower()
            if kl == "content-type":
                environ["CONTENT_TYPE"] = v
            elif kl == "content-length":
                environ["CONTENT_LENGTH"] = v
            else:
                environ["HTTP_" + k.upper().replace("-", "_")] = v
        captured = {}

        def start_response(status, response_headers, exc_info=None):
            captured["status"] = status
            captured["headers"] = list(response_headers)
            return lambda data: None

        try:
            result = self.app.handle_wsgi_request(environ, start_response)
            out = b"".join(result)
        except Exception as exc:  # an exception escaping the callable = 500
            return Response(500, [("X-Exception", type(exc).__name__)],
                            repr(exc).encode("utf-8", "replace"))
        status = int(captured["status"].split(" ", 1)[0])
        if method == "HEAD":
            out = b""
        else:
            # (what a client behind a real WSGI server receives: the announced number of octets)
            for k, v in captured["headers"]:
                if k.lower() == "content-length":
                    try:
                        out = out[:int(v)]
                    except ValueError:
                        pass
        return Response(status, captured["headers"], out)


# -- helpers to place repositories on disk without going through the server --

def git(cwd, *args, check=True, input=None):
    env = dict(os.environ)
    env.update({"GIT_CONFIG_GLOBAL": "/dev/null", "GIT_CONFIG_SYSTEM": "/dev/null",
                "GIT_AUTHOR_NAME": "v", "GIT_AUTHOR_EMAIL": "v@example.com",
                "GIT_COMMITTER_NAME": "v", "GIT_COMMITTER_EMAIL": "v@example.com",
                "LC_ALL": "C", "GIT_OPTIONAL_LOCKS": "0"})
    p = subprocess.run(["git"] + list(args), cwd=cwd, env=env, input=input,
                       stdout=subprocess.PIPE, stderr=subprocess.PIPE)
    if check and p.returncode != 0:
        raise RuntimeError("git %s failed: %s" % (" ".join(args), p.stderr.decode()))
    return p


def make_bare_collection(path, store_type, use_git_config=False):
    """Create a bare git collection of the given xandikos type at path."""
    store = BareGitStore.create(path)
    store.load_extra_file_handler(ICalendarFile)
    store.load_extra_file_handler(VCardFile)
    if use_git_config:
        git(path, "config", "xandikos.type", store_type)
    else:
        store.set_type(store_type)
    return store
