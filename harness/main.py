"""./check entry point."""
import argparse
import sys

from . import common


DAV = ["C01", "C02", "C03", "C06", "C07", "C08", "C09", "C14", "C15", "C17"]


def setup():
    """Offline build/self-check: SANY-parse every module, validate known_findings.json,
    check that the library shims make a write round trip work on all four stores."""
    import glob
    import json
    import os
    import subprocess
    from . import tlc
    ok = True
    for f in sorted(glob.glob(os.path.join(tlc.SPEC_DIR, "*.tla"))):
        p = subprocess.run(["tla-sany", os.path.basename(f)], cwd=tlc.SPEC_DIR, stdout=subprocess.PIPE, stderr=subprocess.STDOUT)
        out = p.stdout.decode()
        if p.returncode != 0 or "*** Errors" in out or "Fatal" in out:
            print("SANY failed on", f)
            print(out[-2000:])
            ok = False
    data = json.load(open(common.FINDINGS_FILE))
    for f in data["findings"]:
        for k in ("id", "property", "status", "what"):
            if k not in f:
                print("known_findings.json: entry without", k, f)
                ok = False
    from . import storedriver, gamma
    for kind in ("tree", "bare", "mem", "vdir"):
        s = storedriver.StoreSession(kind)
        try:
            s.put("a.ics", gamma.model_body(1)[0])
            s.delete("a.ics", "cur")
            if [e["resp"]["cls"] for e in s.events] != ["ok", "ok"]:
                print("store round trip failed on", kind, [e["resp"] for e in s.events])
                ok = False
        finally:
            s.close()
    print("setup ok" if ok else "setup FAILED")
    return 0 if ok else 2


def main(argv):
    ap = argparse.ArgumentParser()
    ap.add_argument("prop", nargs="?")
    ap.add_argument("--tier", default=None)
    ap.add_argument("--replay", default=None)
    ap.add_argument("--setup", action="store_true")
    ap.add_argument("--selftest", action="store_true")
    a = ap.parse_args(argv)
    if a.setup:
        return setup()
    if a.selftest:
        from . import selftest
        return selftest.run()
    if not a.prop:
        ap.error("property id required")
    tier = common.tier_from(a.tier)
    seed = common.seed_from_env()
    prop = a.prop.upper()
    if prop in DAV:
        from . import davcheck
        return davcheck.run(prop, tier, seed, replay=a.replay)
    if prop == "C18":
        from . import discoverycheck
        return discoverycheck.run(prop, tier, seed, replay=a.replay)
    if prop == "C16":
        from . import hrefcheck
        return hrefcheck.run(prop, tier, seed, replay=a.replay)
    if prop == "C13":
        from . import pathcheck
        return pathcheck.run(prop, tier, seed, replay=a.replay)
    if prop == "C12":
        from . import cardcheck
        return cardcheck.run(prop, tier, seed, replay=a.replay)
    if prop == "C11":
        from . import calcheck
        return calcheck.run(prop, tier, seed, replay=a.replay)
    if prop == "C10":
        from . import indexcheck
        return indexcheck.run(prop, tier, seed, replay=a.replay)
    if prop == "C04":
        from . import crashcheck
        return crashcheck.run(prop, tier, seed, replay=a.replay)
    if prop == "C05":
        from . import racecheck
        return racecheck.run(prop, tier, seed, replay=a.replay)
    print("no check registered for", prop)
    return 2


if __name__ == "__main__":
    try:
        rc = main(sys.argv[1:])
    except SystemExit:
        raise
    except BaseException:      # noqa - an exception of the machinery is never a verdict on the system
        import traceback
        traceback.print_exc()
        print("MACHINERY FAILURE (uncaught exception)")
        rc = 2
    sys.exit(rc)
