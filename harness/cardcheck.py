"""C12: addressbook-query returns exactly the contacts that match the filter."""
import json
import logging
import multiprocessing
import os
import re
import shutil
import tempfile
import traceback

from . import common, tlc


def _quiet():
    logging.disable(logging.CRITICAL)
    try:
        os.dup2(open(os.devnull, "w").fileno(), 2)
    except OSError:
        pass


def _work(job):
    _quiet()
    from . import cardcases
    try:
        if job["kind"] == "a":
            out, info = cardcases.run_table_a(job["values"], job["table"], job["frontend"])
            return {"ok": True, "a": out, "info": info}
        out, lim, info = cardcases.run_table_b(job["cards"], job["table"], job["frontend"])
        return {"ok": True, "b": out, "l": lim, "info": info}
    except Exception:
        return {"ok": False, "error": traceback.format_exc()}


def enumerate_cases(maxvalue):
    work = tempfile.mkdtemp(prefix="cardq-", dir=tlc.SCRATCH_ROOT)
    try:
        rf = os.path.join(work, "cases.json")
        cfg = open(os.path.join(tlc.SPEC_DIR, "CardQueryCases.cfg")).read()
        cfg = re.sub(r"MaxValue = \d+", "MaxValue = %d" % maxvalue, cfg)
        res = tlc.run_tlc("CardQueryCases", cfg_text=cfg, env={"RESULT_FILE": rf}, workers=1, timeout=1200)
        if not tlc.ok(res) or not os.path.exists(rf):
            common.machinery_failure("CardQueryCases failed:\n" + res["out"][-3000:])
        return json.load(open(rf))
    finally:
        shutil.rmtree(work, ignore_errors=True)


def run(prop, tier, seed, replay=None):
    rep = common.Report(prop, tier, seed, "exploration")
    devs = common.open_devs("CardQuery")
    quick = tier == "quick"
    tables = enumerate_cases(2 if quick else 3)
    # split table A over workers (each worker builds its own address book)
    jobs = []
    chunks = 12
    ta = tables["a"]
    for i in range(chunks):
        part = ta[i::chunks]
        if part:
            jobs.append({"kind": "a", "values": tables["values"], "table": part,
                         "frontend": "aiohttp" if (i % 4 == 3) else "wsgi"})
    jobs.append({"kind": "b", "cards": tables["cards"], "table": tables["b"], "frontend": "wsgi"})
    jobs.append({"kind": "b", "cards": tables["cards"], "table": tables["b"], "frontend": "aiohttp"})
    with multiprocessing.get_context("fork").Pool(15) as pool:
        outs = pool.map(_work, jobs, chunksize=1)
    A, B, L = [], [], []
    data_ok, checked = True, 0
    for o in outs:
        if not o["ok"]:
            common.machinery_failure("harness exception:\n" + o["error"])
        A.extend(o.get("a", []))
        B.extend(o.get("b", []))
        L.extend(o.get("l", []))
        if "info" in o:
            data_ok = data_ok and o["info"]["data_ok"]
            checked += o["info"]["checked"]
    results, stat = tlc.validate_traces("CardQueryTrace", "CardQueryTrace.cfg",
                                        {"values": tables["values"], "cards": tables["cards"],
                                         "a": A, "b": B, "l": L},
                                        constants={"EnabledDevs": tlc.tla_set(devs)}, timeout=3000)
    for v in sorted(results, key=lambda v: (v["t"], v["i"], v["dev"])):
        rec = {"a": A, "b": B, "l": L}[v["t"]][v["i"] - 1]
        if v["k"] == "known":
            rep.known_finding(v["dev"], devs.get(v["dev"], {}).get("what", v["dev"]))
        else:
            rep.violation("%s case=%s" % (v["dev"], json.dumps(rec, ensure_ascii=False)[:400]),
                          {"property": prop, "verdict": v, "case": rec})
    from . import readoverlap, reportrace
    readoverlap.check(rep, list(reportrace.AB_PAIRS))
    if not data_ok:
        rep.violation("address-data of a returned card differs from GET", {"property": prop})
    pairs = len(A) * len(tables["values"])
    rep.coverage.update({
        "evaluations": pairs + len(B) * len(tables["cards"]) + len(L),
        "distinct_nontrivial": len(A) + len(B),
        "rule": "table A: every text-match (4 match types x 3 collations x negate x all needles up to length 2 over "
                "a 6-letter alphabet with case pairs, non-ASCII letters and the blank; needles may begin or end with a blank) against every value (length <= %d); "
                "table B: %d filter structures (anyof/allof, is-not-defined, param-filter, several text-matches, "
                "multi-instance properties) x 5 cards; limit 0/1/2/10 for each; evaluations counts (filter, card) "
                "pairs, distinct counts distinct queries" % (2 if quick else 3, len(tables["b"])),
        "samples": [A[0], B[0]] if A and B else [],
        "queries": len(A) + len(B) + len(L),
        "address_data_compared_with_get": checked,
        "states": stat["distinct"],
        "exhaustive": True,
    })
    rep.assumptions += ["vCard 3.0 cards with FN/N/EMAIL/NOTE; other properties (structured N, ADR) are not enumerated",
                        "harness/compat.py library shims"]
    return rep.finish()
