"""Deterministic interleaving of store operations at file-system-step granularity.

Worker threads run one store operation each.  Inside the audit hook
(harness/fsmon.py) a worker parks *before* every gate event (any file-system
event below the store directory: reads of index/refs/objects and all
mutations) until the controller lets it take that step.  No change to the
repository is needed.  For the in-memory store, which raises no audit events,
gates are placed by wrapping the dulwich MemoryRepo methods.
"""
import contextvars
import threading
import time

from . import fsmon

# which worker a thread acts for: asyncio.to_thread copies the context of the request that
# asked for it, so pool threads doing file-system work on behalf of a worker are gated too
_WORKER = contextvars.ContextVar("verif_sched_worker", default=None)


class Scheduler(fsmon.Monitor):
    def __init__(self, root, nworkers, gate_reads=True, timeout=5.0):
        super().__init__(root)
        self.cv = threading.Condition()
        self.tid2w = {}
        self.state = {}          # w -> "running" | "waiting" | "done"
        self.permit = {}         # w -> number of steps it may take
        self.trace = []          # (w, gate name) in execution order
        self.gate_reads = gate_reads
        self.timeout = timeout
        self.free_run = False
        self.stuck = False
        self.results = {}

    # --- hook side -----------------------------------------------------------
    def on_event(self, event, paths, write):
        w = self.tid2w.get(threading.get_ident()) or _WORKER.get()
        if w is None or self.free_run or w not in self.state:
            return
        if not self.relevant(paths):
            return
        if not write:
            if not self.gate_reads or not self._interesting_read(event, paths):
                return
        if getattr(self._reent, "busy", False):
            return
        name = fsmon.gate_name(event, paths, self.root) if write else "r"
        with self.cv:
            self.state[w] = "waiting"
            self.cv.notify_all()
            t0 = time.time()
            while self.permit.get(w, 0) <= 0 and not self.free_run:
                self.cv.wait(0.05)
                if time.time() - t0 > 60:
                    break
            self.permit[w] = self.permit.get(w, 0) - 1
            self.state[w] = "running"
            self.trace.append((w, name))

    def _interesting_read(self, event, paths):
        """Reads that observe mutable shared state: index, refs, HEAD, work-tree / vdir files.
        Reads of (immutable, content-addressed) objects and of config files are not gates."""
        import os
        if event != "open":
            return False
        rel = os.path.relpath(paths[0], self.root)
        parts = rel.split(os.sep)
        if parts[0] == ".git":
            parts = parts[1:]
        elif os.path.isdir(os.path.join(self.root, ".git")):
            return True                      # work-tree file of a tree store
        tail = "/".join(parts)
        if tail in ("index", "HEAD", "packed-refs") or tail.startswith("refs/"):
            return True
        if tail.startswith("objects/") or tail.startswith("logs/") or tail in ("config", "description", "MERGE_HEAD"):
            return False
        return not os.path.exists(os.path.join(self.root, "HEAD"))   # vdir member file

    # --- controller side -------------------------------------------------------
    def spawn(self, w, fn):
        def body():
            self.tid2w[threading.get_ident()] = w
            _WORKER.set(w)
            try:
                self.results[w] = ("ok", fn())
            except BaseException as exc:   # noqa
                self.results[w] = ("exc", exc)
            finally:
                with self.cv:
                    self.state[w] = "done"
                    self.cv.notify_all()
        self.state[w] = "running"
        self.permit[w] = 0
        t = threading.Thread(target=body, daemon=True)
        t.start()
        return t

    def wait_parked(self, w):
        """Wait until worker w is parked at a gate or has finished. False on timeout."""
        t0 = time.time()
        with self.cv:
            while self.state.get(w) == "running":
                self.cv.wait(0.02)
                if time.time() - t0 > self.timeout:
                    return False
        return True

    def step(self, w, n=1):
        """Let w take n gate steps (it runs up to the (n+1)-th gate and parks, or finishes).
        Returns the number of steps actually taken."""
        taken = 0
        for _ in range(n):
            if not self.wait_parked(w):
                self.stuck = True
                return taken
            if self.state.get(w) == "done":
                return taken
            with self.cv:
                self.permit[w] = self.permit.get(w, 0) + 1
                self.state[w] = "running"
                self.cv.notify_all()
            taken += 1
        if not self.wait_parked(w):
            self.stuck = True
        return taken

    def finish(self, w):
        """Run w to completion."""
        t0 = time.time()
        while self.state.get(w) != "done":
            if self.step(w, 1) == 0 and self.state.get(w) != "done":
                if time.time() - t0 > self.timeout:
                    self.stuck = True
                    return False
        return True

    def release_all(self):
        with self.cv:
            self.free_run = True
            self.cv.notify_all()
