"""A store written and read by processes that run under a non-UTF-8 locale (services started
with LANG=C): phase `write' applies property sets / puts with non-ASCII text and reports which
were acknowledged, then the process ends; phase `read' (a fresh process, the restarted server)
reopens the store and reads everything.   python -m harness.localeworker <write|read> <kind> <path>"""
import json
import sys
import zlib

from harness import compat  # noqa: F401


def H(x):
    return zlib.crc32(repr(x).encode("utf-8", "surrogatepass")) % 1000003 + 1


OPS = [
    {"t": "prop", "p": "displayname", "v": "Café Büro"},
    {"t": "prop", "p": "description", "v": "Grüße 日本"},
    {"t": "prop", "p": "color", "v": "#00FF00"},
    {"t": "put", "n": "u.ics", "summary": "Übung ☃"},
    {"t": "prop", "p": "displayname", "v": "plain ascii"},
]


def main():
    phase, kind, path = sys.argv[1], sys.argv[2], sys.argv[3]
    from harness import crashdriver as cd, gamma
    import locale
    out = {"encoding": locale.getpreferredencoding(False)}
    if phase == "write":
        st = cd.open_store(kind, path)
        res = []
        for o in OPS:
            try:
                if o["t"] == "prop":
                    getattr(st, "set_" + o["p"])(o["v"])
                else:
                    st.import_one(o["n"], "text/calendar", [gamma.ics_event("locale-uid", o["summary"])])
                res.append("")
            except Exception as exc:
                res.append(type(exc).__name__)
            # what this very process reads back right after the attempt
        out["res"] = res
    out["obs"] = cd.observe(kind, path, H)
    sys.stdout.write(json.dumps(out))


if __name__ == "__main__":
    main()
