"""C13: no request can touch the file system outside the data directory."""
import json
import logging
import multiprocessing
import os
import random
import re
import shutil
import tempfile
import traceback

from . import common, tlc


def _quiet():
    logging.disable(logging.CRITICAL)
    try:
        os.dup2(open(os.devnull, "w").fileno(), 2)
    except OSError:
        pass


def _work(job):
    _quiet()
    from . import pathcases
    try:
        t = pathcases.Template()
        out = []
        try:
            for (case, method) in job["items"]:
                out.append(pathcases.run_one(t, case, method, job["frontend"]))
        finally:
            t.close()
        return {"ok": True, "recs": out}
    except Exception:
        return {"ok": False, "error": traceback.format_exc()}


def enumerate_cases(maxlen):
    work = tempfile.mkdtemp(prefix="pm-", dir=tlc.SCRATCH_ROOT)
    try:
        rf = os.path.join(work, "cases.json")
        cfg = open(os.path.join(tlc.SPEC_DIR, "PathMapCases.cfg")).read()
        cfg = re.sub(r"MaxLen = \d+", "MaxLen = %d" % maxlen, cfg)
        res = tlc.run_tlc("PathMapCases", cfg_text=cfg, env={"RESULT_FILE": rf}, workers=1, timeout=1200)
        if not tlc.ok(res) or not os.path.exists(rf):
            common.machinery_failure("PathMapCases failed:\n" + res["out"][-3000:])
        return json.load(open(rf))["cases"]
    finally:
        shutil.rmtree(work, ignore_errors=True)


def run(prop, tier, seed, replay=None):
    from . import pathcases
    rep = common.Report(prop, tier, seed, "exploration")
    devs = common.open_devs("PathMap")
    quick = tier == "quick"
    cases = enumerate_cases(2 if quick else 3)
    rng = random.Random(seed)
    items = [(c, m) for c in cases for m in pathcases.METHODS]
    # XML bodies with an external entity that names a file outside the root (both front ends)
    items += [({"segs": ["N1"], "lead": 1, "enc": "plain", "norm": ["LITERAL"]}, "XMLENT")] * 2
    # a pushed commit with symbolic links that point outside the root, then clean paths through them
    items += [({"segs": ["N1"], "lead": 1, "enc": "plain", "norm": ["LITERAL"], "locked": False}, "GITPUSH")] * 2
    # ordinary targets while the collection's index lock is held by someone else: a refused (or
    # failed) write must not leave its data in the system's temporary directory either
    for segs, norm in ((["N1", "N2"], ["N1", "N2"]), (["N1", "F"], ["N1", "F"]), (["N1"], ["N1"])):
        for m in ("PUT", "DELETE", "PROPPATCH", "POST", "MKCALENDAR"):
            for _ in (0, 1):
                items.append(({"segs": segs, "lead": 1, "enc": "plain", "norm": norm, "locked": True}, m))
    if replay:
        r = json.load(open(replay))
        items = [(dict({k: r["case"][k] for k in ("segs", "lead", "enc", "norm")}, locked=r["case"].get("locked", False)),
                  r["case"]["method"])]
    elif not quick:
        rng.shuffle(items)
        items = items[:14000]
    else:
        # quick: every target that leaves the plain grammar stays; of the plain-encoded ones
        # without an outside / sibling / directory segment a seeded half
        def special(c):
            return c.get("locked") or c["enc"] != "plain" or any(x in ("ABS", "OUT", "SIB", "DIR", "..") for x in c["segs"])
        items = [(c, m) for (c, m) in items if special(c) or rng.random() < 0.5]
    rng.shuffle(items)
    jobs = []
    nw = 15
    for i in range(nw):
        part = items[i::nw]
        if part:
            jobs.append({"items": part, "frontend": "aiohttp" if i % 2 else "wsgi"})
    with multiprocessing.get_context("fork").Pool(nw) as pool:
        outs = pool.map(_work, jobs, chunksize=1)
    recs = []
    for o in outs:
        if not o["ok"]:
            common.machinery_failure("harness exception:\n" + o["error"])
        recs.extend(o["recs"])
    results, stat = tlc.validate_traces("PathMapTrace", "PathMapTrace.cfg", {"recs": recs},
                                        constants={"EnabledDevs": tlc.tla_set(devs)}, timeout=3000)
    for v in sorted(results, key=lambda v: (v["dev"], v["i"])):
        r = recs[v["i"] - 1]
        if v["k"] == "known":
            rep.known_finding(v["dev"], devs.get(v["dev"], {}).get("what", v["dev"]))
        else:
            rep.violation("%s: %s %s (%s) -> %s %s ; outside=%s effect=%s normalised-effect=%s" % (
                v["dev"], r["method"], r["target"], r["frontend"], r["status"], r["cls"],
                r["outside_sample"], r["effect"][:4], r["neffect"][:4]),
                {"property": prop, "verdict": v, "case": r})
    distinct = {(r["method"], tuple(r["segs"]), r["lead"], r["enc"], r["frontend"]) for r in recs}
    rep.coverage.update({
        "evaluations": len(recs),
        "distinct_nontrivial": len({d for d in distinct if any(s in (".", "..", "", "ABS") for s in d[1])}),
        "rule": "one evaluation = one request (method x target) sent to a real server with every file-system "
                "event of the process recorded and the surroundings of the data root compared before/after; "
                "targets = all segment sequences up to length %d over {existing, existing member, fresh, '.', '..', "
                "empty, absolute outside path} x 1-4 leading slashes x 11 encodings (plain, escaped dots, escaped slashes, mixed case, every separator escaped, the doubly escaped variants, Unicode look-alikes of dot and slash; enumerated by TLC from "
                "PathMap.tla with their normal form); non-trivial = contains a dot / empty / absolute segment"
                % (2 if quick else 3),
        "samples": [{k: r[k] for k in ("method", "target", "frontend", "status", "effect", "outside_events")}
                    for r in recs[:4]],
        "targets": len(cases), "methods": pathcases.METHODS,
        "states": stat["distinct"],
        "exhaustive": quick or len(items) == len(cases) * len(pathcases.METHODS),
    })
    rep.assumptions += ["file-system accesses are observed through Python audit events (open, os.*, shutil.*); "
                        "accesses made by C code without an audit event would only show in the before/after snapshot",
                        "symlinks inside the root are out of scope (the server creates none)",
                        "harness/compat.py library shims"]
    return rep.finish()
