"""C11: calendar-query returns exactly the resources that match the filter."""
import json
import logging
import multiprocessing
import os
import tempfile
import shutil
import traceback

from . import common, tlc

SCENARIOS = [(None, "utc"), (None, "float"), (None, "tzid"),
             ("America/New_York", "utc"), ("America/New_York", "float"), ("America/New_York", "tzid"),
             ("Asia/Tokyo", "float"), ("Asia/Tokyo", "utc")]


def _quiet():
    logging.disable(logging.CRITICAL)
    try:
        os.dup2(open(os.devnull, "w").fileno(), 2)
    except OSError:
        pass


def _work(job):
    _quiet()
    from . import calcases
    try:
        if job["kind"] == "fb":
            return {"ok": True, "fb": calcases.run_freebusy_cases(job["cases"], job["frontend"])}
        if job["kind"] == "time":
            out, info = calcases.run_time_cases(job["cases"], job["zone"], job["mode"], job["frontend"])
            return {"ok": True, "time": out, "info": info}
        return {"ok": True, "filters": calcases.run_filter_cases(job["table"], job["frontend"], job.get("threshold"))}
    except Exception:
        return {"ok": False, "error": traceback.format_exc()}


def enumerate_cases():
    work = tempfile.mkdtemp(prefix="cq-", dir=tlc.SCRATCH_ROOT)
    try:
        rf = os.path.join(work, "cases.json")
        res = tlc.run_tlc("CalQueryCases", cfg_file=os.path.join(tlc.SPEC_DIR, "CalQueryCases.cfg"),
                          env={"RESULT_FILE": rf}, workers=1, timeout=600)
        if not tlc.ok(res) or not os.path.exists(rf):
            common.machinery_failure("CalQueryCases failed:\n" + res["out"][-3000:])
        return json.load(open(rf))
    finally:
        shutil.rmtree(work, ignore_errors=True)


def run(prop, tier, seed, replay=None):
    rep = common.Report(prop, tier, seed, "exploration")
    devs = common.open_devs("CalQuery")
    tables = enumerate_cases()
    quick = tier == "quick"
    scen = SCENARIOS[:5] if quick else SCENARIOS
    jobs = []
    for (zone, mode) in scen:
        jobs.append({"kind": "time", "cases": tables["time"], "zone": zone, "mode": mode, "frontend": "wsgi"})
    jobs.append({"kind": "filter", "table": tables["filters"], "frontend": "wsgi"})
    # the same table answered from the index from the first query on, and never from the index
    jobs.append({"kind": "filter", "table": tables["filters"], "frontend": "wsgi", "threshold": 0})
    jobs.append({"kind": "filter", "table": tables["filters"], "frontend": "wsgi", "threshold": 10 ** 9})
    jobs.append({"kind": "fb", "cases": tables["time"], "frontend": "wsgi"})
    if not quick:
        jobs.append({"kind": "time", "cases": tables["time"], "zone": None, "mode": "utc", "frontend": "aiohttp"})
        jobs.append({"kind": "filter", "table": tables["filters"], "frontend": "aiohttp"})
    with multiprocessing.get_context("fork").Pool(min(15, len(jobs))) as pool:
        outs = pool.map(_work, jobs, chunksize=1)
    time_obs, filt_obs, fb_obs = [], [], []
    data_ok = True
    data_checked = 0
    for o in outs:
        if not o["ok"]:
            common.machinery_failure("harness exception:\n" + o["error"])
        time_obs.extend(o.get("time", []))
        filt_obs.extend(o.get("filters", []))
        fb_obs.extend(o.get("fb", []))
        if "info" in o:
            data_ok = data_ok and o["info"]["data_ok"]
            data_checked += o["info"]["data_checked"]
    results, stat = tlc.validate_traces("CalQueryTrace", "CalQueryTrace.cfg",
                                        {"time": time_obs, "filters": filt_obs, "fb": fb_obs},
                                        constants={"EnabledDevs": tlc.tla_set(devs)})
    notstored = 0
    ext = {}
    for v in sorted(results, key=lambda v: (v["t"], v["i"])):
        if v["k"] == "ext":
            ext[v["dev"]] = ext.get(v["dev"], 0) + 1
            continue
        rec = (time_obs if v["t"] == "time" else filt_obs)[v["i"] - 1]
        if v["k"] == "note":
            notstored += 1
        elif v["k"] == "known":
            rep.known_finding(v["dev"], devs.get(v["dev"], {}).get("what", v["dev"]))
        else:
            rep.violation("%s (RFC 4791 says %s) case=%s" % (v["dev"], "match" if v["want"] else "no match",
                                                             json.dumps({k: rec[k] for k in rec if k != "name"})[:500]),
                          {"property": prop, "verdict": v, "case": rec})
    from . import readoverlap, reportrace
    readoverlap.check(rep, [n for n in reportrace.PAIRS if n.startswith("query")])
    if not data_ok:
        rep.violation("calendar-data of a returned resource differs from GET", {"property": prop})
    for d, n in sorted(ext.items()):
        rep.note("extension (free-busy-query, RFC 4791 7.10, not a listed property): %s in %d case(s)" % (d, n))
    rep.coverage["extension_freebusy"] = {"cases": len(fb_obs), "deviations": ext}
    if notstored:
        rep.note("%d generated objects were refused by the server at upload and are not judged" % notstored)
    distinct = {json.dumps(r["c"], sort_keys=True) + r["mode"] + r["zone"] for r in time_obs} | \
               {json.dumps([r["f"], r["obj"]], sort_keys=True) for r in filt_obs}
    rep.coverage.update({
        "evaluations": len(time_obs) + len(filt_obs),
        "distinct_nontrivial": len(distinct),
        "rule": "one evaluation = one (component case or filter x object) executed through REPORT calendar-query; "
                "the case space is enumerated by TLC from CalQuery.tla (every presence/ordering cell of the "
                "section 9.9 tables on a 7-point grid with the range boundaries inside, DATE/floating/UTC/TZID "
                "renderings, three effective time zones; filter shapes x object shapes for 9.7.1-9.7.5)",
        "samples": [{k: r[k] for k in ("c", "zone", "mode", "got")} for r in time_obs[:3]] +
                   [{k: r[k] for k in ("f", "obj", "got")} for r in filt_obs[:2]],
        "time_cases": len(tables["time"]), "filter_cases": len(tables["filters"]),
        "scenarios": ["%s/%s" % (z or "UTC", m) for z, m in scen],
        "calendar_data_compared_with_get": data_checked,
        "states": stat["distinct"],
        "exhaustive": True,
    })
    rep.assumptions += ["recurrence expansion (RRULE/RDATE/EXDATE) is outside the enumerated grid",
                        "date arithmetic of icalendar / zoneinfo is trusted; TZ=UTC for the server process",
                        "harness/compat.py library shims"]
    return rep.finish()
