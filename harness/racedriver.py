"""C05: run two store operations under a prescribed interleaving of their
file-system steps on a real git store and record results + final state."""
import os
import shutil

from . import compat  # noqa: F401
from . import fsmon, gamma, sched
from .world import mkscratch, git

from xandikos.store import (DuplicateUidError, InvalidETag, InvalidFileContents,  # noqa: E402
                            LockedError, NoSuchItem)
from xandikos.store.git import BareGitStore, TreeGitStore, GitStore  # noqa: E402
from xandikos.icalendar import ICalendarFile  # noqa: E402
from xandikos.vcard import VCardFile  # noqa: E402

# content alphabet: ids as in StoreProtoMC (1 and 2 share a UID, 3 has another, 5 a third)
CONTENT = {
    1: lambda: gamma.ics_event("race-uid-A", "one"),
    2: lambda: gamma.ics_event("race-uid-A", "two", dtstart="20200103T100000Z", dtend="20200103T110000Z"),
    3: lambda: gamma.ics_event("race-uid-B", "three"),
    5: lambda: gamma.ics_event("race-uid-C", "five"),
}
UID = {1: 7, 2: 7, 3: 8, 5: 9}
NAMES = {"a": "a.ics", "b": "b.ics", "c": "c.ics"}


def _load(s):
    s.load_extra_file_handler(ICalendarFile)
    s.load_extra_file_handler(VCardFile)
    return s


class Template:
    """A prepared store directory (initial contents) that is copied for every run."""

    def __init__(self, kind, init, idle=False):
        """idle: the collection was last written an hour ago (every file carries that age)."""
        self.kind = kind
        self.base = mkscratch("xr-")
        self.path = os.path.join(self.base, "tmpl")
        st = _load(TreeGitStore.create(self.path) if kind == "tree" else BareGitStore.create(self.path))
        self.init = dict(init)
        self.etags = {}
        for n, b in sorted(init.items()):
            (_, et) = st.import_one(NAMES[n], "text/calendar", [CONTENT[b]()])
            self.etags[b] = et
        # etag of every content of the alphabet, computed by a throw-away memory store each
        for b in CONTENT:
            if b not in self.etags:
                ms = _load(BareGitStore.create_memory())
                (_, et) = ms.import_one("x.ics", "text/calendar", [CONTENT[b]()])
                self.etags[b] = et
        self.run_no = 0
        if idle:
            import time
            then = time.time() - 3600
            for dp, dns, fns in os.walk(self.path):
                for x in dns + fns:
                    try:
                        os.utime(os.path.join(dp, x), (then, then), follow_symlinks=False)
                    except OSError:
                        pass

    def fresh(self):
        self.run_no += 1
        p = os.path.join(self.base, "run%d" % self.run_no)
        shutil.copytree(self.path, p)
        return p

    def close(self):
        shutil.rmtree(self.base, ignore_errors=True)


def _call(fn, want_etag=None, flags=None, key=None):
    """flags[key]: did an acknowledged put answer with the etag of what it stored?"""
    try:
        r = fn()
        if want_etag is not None and flags is not None:
            got = r[1] if isinstance(r, tuple) and len(r) == 2 else None
            flags[key] = (got == want_etag)
        return "ok"
    except InvalidETag:
        return "InvalidETag"
    except DuplicateUidError:
        return "DuplicateUid"
    except NoSuchItem:
        return "NoSuchItem"
    except LockedError:
        return "Locked"
    except InvalidFileContents:
        return "Invalid"
    except Exception as exc:
        return "Error:" + type(exc).__name__


def store_view(store, tmpl):
    """What this (long-lived) store object serves: name -> content id."""
    inv = {v: k for k, v in tmpl.etags.items()}
    rn = {v: k for k, v in NAMES.items()}
    out = {}
    for (n, ct, et) in store.iter_with_etag():
        # the etag the listing reports and the bytes get_file serves must belong together
        data = b"".join(store.get_file(n, ct, et).content)
        out[rn.get(n, n)] = inv.get(et, 0)
    return out


def make_op(store, tmpl, op, flags=None, key=None):
    if op["t"] == "read":
        return lambda: _call(lambda: store_view(store, tmpl))
    name = NAMES[op["n"]]
    cond = tmpl.etags[op["cond"]] if op["cond"] else None
    if op["t"] == "put":
        data = CONTENT[op["b"]]()
        return lambda: _call(lambda: store.import_one(name, "text/calendar", [data], replace_etag=cond),
                             want_etag=tmpl.etags[op["b"]], flags=flags, key=key)
    return lambda: _call(lambda: store.delete_one(name, etag=cond))


def read_final(path, tmpl):
    """Final visible state through a freshly opened store: name -> content id (0 = unknown bytes)."""
    st = _load(GitStore.open_from_path(path))
    inv = {v: k for k, v in tmpl.etags.items()}
    rn = {v: k for k, v in NAMES.items()}
    out = {}
    ok = True
    try:
        for (n, ct, et) in st.iter_with_etag():
            data = b"".join(st.get_file(n).content)
            out[rn.get(n, n)] = inv.get(et, 0)
    except Exception:
        ok = False
    fsck = git(path, "fsck", "--strict", "--no-dangling", check=False).returncode == 0
    clean = True
    if tmpl.kind == "tree":
        stt = git(path, "status", "--porcelain", check=False)
        clean = stt.stdout.strip() == b""
    return out, ok, fsck, clean


def run_schedule(tmpl, opa, opb, plan, shared=True, opc=None):
    """plan: list of (worker, nsteps) with nsteps None = run to completion.
    Returns the observation record for LinTrace."""
    path = tmpl.fresh()
    try:
        sa = _load(GitStore.open_from_path(path))
        late = shared == "late"        # B's process opens the collection only when its request arrives
        sb = sa if shared is True else (None if late else _load(GitStore.open_from_path(path)))
        sc = sched.Scheduler(path, 2)
        flags = {}
        holder = {}

        def b_late():
            holder["sb"] = _load(GitStore.open_from_path(path))
            return make_op(holder["sb"], tmpl, opb, flags, "B")()
        with sc:
            ta = sc.spawn("A", make_op(sa, tmpl, opa, flags, "A"))
            tb = sc.spawn("B", b_late if late else make_op(sb, tmpl, opb, flags, "B"))
            for (w, n) in plan:
                if n is None:
                    sc.finish(w)
                else:
                    sc.step(w, n)
            sc.finish("A")
            sc.finish("B")
            if sc.stuck:
                sc.release_all()
            ta.join(10)
            tb.join(10)
        res = {}
        for w in ("A", "B"):
            r = sc.results.get(w)
            res[w] = r[1] if r and r[0] == "ok" else ("Error:" + type(r[1]).__name__ if r else "Error:stuck")
        # optional follow-up operation, executed after both writers have finished, on the
        # first writer's store object: probes state the overlapped operations left behind
        mid = None
        if opc is not None:
            mid = read_final(path, tmpl)[0]      # the state the overlapped pair left behind
            if opc.get("cond") == -1:
                # conditional on the version the collection now reports for that name
                opc = dict(opc, cond=mid.get(opc["n"], 0) or 0)
            res["C"] = make_op(sa, tmpl, opc, flags, "C")()
        # what the long-lived store objects serve afterwards (must be the state on disk)
        views = []
        if late:
            sb = holder.get("sb") or sa
        for st in ([sa] if shared is True else [sa, sb]):
            try:
                views.append(store_view(st, tmpl))
            except Exception as exc:
                views.append({"error": 0})
        final, opens, fsck, clean = read_final(path, tmpl)
        # window: was some writer overtaken (the other one executed a mutating gate) while it was
        # still in its unprotected check phase - i.e. after its first gate and before it holds
        # the lock that serialises writers (tree: LockIndex taken; bare: LockRef taken)?
        MUT = ("LockIndex", "WriteFile", "Remove", "AddObj", "LockRef", "MoveRef", "WriteIndex")
        lockgate = "LockIndex" if tmpl.kind == "tree" else "LockRef"
        phase = "none"
        for w, o in (("A", "B"), ("B", "A")):
            idx = [i for i, (x, g) in enumerate(sc.trace) if x == w]
            if not idx:
                continue
            lk = next((i for i in idx if sc.trace[i][1] == lockgate), idx[-1] + 1)
            if any(x == o and g in MUT for (x, g) in sc.trace[idx[0]:lk]):
                phase = "check"
        return {"kind": tmpl.kind, "shared": shared if isinstance(shared, bool) else False,
                "lateopen": bool(late), "init": tmpl.init,
                "ops": {"A": opa, "B": opb, "C": opc if opc is not None else {"t": "none", "n": "", "b": 0, "cond": 0}},
                "res": res if "C" in res else dict(res, C="none"), "final": final,
                "mid": mid if mid is not None else final,
                "views_ok": all(v == final for v in views),
                "etag_ok": {w: bool(flags.get(w, True)) for w in ("A", "B", "C")},
                "err": {w: res[w].startswith("Error:") for w in res}, "phase": phase,
                "opens": opens, "fsck": fsck, "clean": clean, "stuck": sc.stuck,
                "sched": [[w, g] for (w, g) in sc.trace],
                "plan": [[w, n if n is not None else -1] for (w, n) in plan]}
    finally:
        shutil.rmtree(path, ignore_errors=True)


def count_gates(tmpl, op):
    """Number of gates of an operation run alone (on a fresh copy)."""
    path = tmpl.fresh()
    try:
        st = _load(GitStore.open_from_path(path))
        sc = sched.Scheduler(path, 1)
        with sc:
            t = sc.spawn("A", make_op(st, tmpl, op))
            n = 0
            while sc.state.get("A") != "done" and n < 400:
                n += sc.step("A", 1)
                if sc.stuck:
                    break
            t.join(10)
        return len(sc.trace), [g for (_, g) in sc.trace]
    finally:
        shutil.rmtree(path, ignore_errors=True)


def run_sequential(tmpl, steps):
    """No overlap at all: a history of operations issued one after another, each through one of
    TWO long-lived store objects on the same directory (two server processes taking turns).
    steps: list of (which object 0|1, op).  -> record for LinTrace (kind "seq")."""
    path = tmpl.fresh()
    try:
        stores = [_load(GitStore.open_from_path(path)), _load(GitStore.open_from_path(path))]
        for st in stores:           # both have served requests before (warm caches / UID maps)
            store_view(st, tmpl)
            try:
                st._scan_uids()
            except Exception:
                pass
        res, flags = [], {}
        for k, (which, op) in enumerate(steps):
            res.append(make_op(stores[which], tmpl, op, flags, k)())
        final, opens, fsck, clean = read_final(path, tmpl)
        views = []
        for st in stores:
            try:
                views.append(store_view(st, tmpl))
            except Exception:
                views.append({"error": 0})
        return {"kind": tmpl.kind, "init": tmpl.init, "who": [w for (w, _) in steps], "ops": [o for (_, o) in steps],
                "res": res, "final": final, "views_ok": all(v == final for v in views),
                "etag_ok": [bool(flags.get(k, True)) for k in range(len(steps))],
                "opens": opens, "fsck": fsck, "clean": clean}
    finally:
        shutil.rmtree(path, ignore_errors=True)
