"""C13: adversarial request targets against a real server, with every file-system
access of the process recorded (audit hook) and the surroundings of the data
root compared before / after."""
import hashlib
import os
import shutil
import sys
import urllib.parse

from . import compat  # noqa: F401
from . import alpha, fsmon, gamma
from .world import World, mkscratch, git

from xandikos.store.git import TreeGitStore  # noqa: E402
from xandikos.icalendar import ICalendarFile  # noqa: E402

METHODS = ["GET", "PROPFIND", "PUT", "POST", "DELETE", "MKCOL", "MKCALENDAR", "PROPPATCH", "MULTIGET", "SLUG", "UIDNAME"]

import xandikos as _xandikos_pkg
ALLOW_PREFIXES = [sys.prefix, sys.base_prefix, "/repo", "/verif",
                  os.path.dirname(os.path.dirname(os.path.abspath(_xandikos_pkg.__file__))),     # the code under test
                  os.path.dirname(os.path.dirname(os.path.abspath(__file__))),                   # this harness
                  "/usr", "/etc", "/proc", "/dev",
                  "/venv", "/root/.pyenv", "/lib", "/sys", "/opt", "/tmp",
                  # git configuration read by dulwich (library configuration, not user data)
                  os.path.expanduser("~/.gitconfig"), os.path.expanduser("~/.config/git")]


def tree_state(path, skip_git=True):
    out = {}
    for root, dirs, files in os.walk(path):
        if skip_git and ".git" in dirs:
            dirs.remove(".git")
        dirs.sort()
        rel = os.path.relpath(root, path)
        out[rel + "/"] = "dir"
        for f in sorted(files):
            fp = os.path.join(root, f)
            try:
                with open(fp, "rb") as fh:
                    out[os.path.join(rel, f)] = hashlib.sha1(fh.read()).hexdigest()
            except OSError:
                out[os.path.join(rel, f)] = "unreadable"
    return out


class Template:
    """base/data (the served root: /cal calendar with a.ics, /user principal),
    base/outside (a git calendar with secret.ics, a plain file), base/sibling.txt"""

    def __init__(self):
        self.base = mkscratch("xp-")
        self.tmpl = os.path.join(self.base, "tmpl")
        os.makedirs(self.tmpl)
        w = World(frontend="wsgi", prefix="/", root=os.path.join(self.tmpl, "data"))
        try:
            assert w.request("MKCALENDAR", "/cal/").status in range(200, 300)
            assert w.request("PUT", "/cal/a.ics", [("Content-Type", "text/calendar")],
                             gamma.ics_event("inside-1", "inside")).status in range(200, 300)
            assert w.request("PUT", "/cal/b.ics", [("Content-Type", "text/calendar")],
                             gamma.ics_event("inside-2", "inside two")).status in range(200, 300)
        finally:
            w.stop()
        out = os.path.join(self.tmpl, "outside")
        os.makedirs(out)
        st = TreeGitStore.create(os.path.join(out, "cal"))
        st.load_extra_file_handler(ICalendarFile)
        st.set_type("calendar")
        st.import_one("a.ics", "text/calendar", [gamma.ics_event("secret-1", "SECRET outside the root")])
        with open(os.path.join(out, "file.txt"), "w") as f:
            f.write("outside file\n")
        with open(os.path.join(self.tmpl, "sibling.txt"), "w") as f:
            f.write("sibling: SECRET outside the root\n")
        # the directory the data root lies in is itself a git working tree (a home directory or
        # /etc under version control) with that file committed
        from .world import git
        git(self.tmpl, "init", "-q", "-b", "main")
        git(self.tmpl, "-c", "user.name=o", "-c", "user.email=o@example.com", "add", "sibling.txt")
        git(self.tmpl, "-c", "user.name=o", "-c", "user.email=o@example.com", "commit", "-q", "-m", "outer")
        self.n = 0

    def fresh(self):
        self.n += 1
        p = os.path.join(self.base, "w%d" % self.n)
        shutil.copytree(self.tmpl, p, symlinks=True)
        return p

    def close(self):
        shutil.rmtree(self.base, ignore_errors=True)


def render(case, abs_path):
    """-> raw request path (already encoded) for a PathMap case."""
    segs = []
    for s in case["segs"]:
        if s == "N1":
            segs.append("cal")
        elif s == "N2":
            segs.append("a.ics")
        elif s == "F":
            segs.append("new")
        elif s == "ABS":
            segs.extend([x for x in abs_path.split("/") if x])
        elif s == "OUT":
            segs.extend(["outside", "cal", "a.ics"])
        elif s == "DIR":
            segs.append("user")
        elif s == "SIB":
            segs.append("sibling.txt")
        else:
            segs.append(s)
    enc = case["enc"]
    if enc.endswith("tail"):
        # /<collection>/<one segment spelling ../../name>
        dot, sep = {"pcttail": ("..", "%2F"), "dbltail": ("%252e%252e", "%252F"),
                    "fwtail": (urllib.parse.quote("\uff0e\uff0e"), urllib.parse.quote("\uff0f")),
                    "leadertail": (urllib.parse.quote("\u2025"), urllib.parse.quote("\uff0f")),
                    "mixtail": ("%2e" + urllib.parse.quote("\uff0e"), urllib.parse.quote("\u2215"))}[enc]
        tail = sep.join([dot] * (len(segs) - 2) + ["new.ics"])
        return "/" * case["lead"] + segs[0] + "/" + tail

    def e(s):
        if s in (".", "..") and enc in ("pctdot", "pctslash"):
            return s.replace(".", "%2e")
        if s in (".", "..") and enc == "mixedcase":
            return s.replace(".", "%2E", 1).replace(".", "%2e")
        if s in (".", "..") and enc in ("dblpctdot", "dblboth"):
            return s.replace(".", "%252e")
        if s in (".", "..") and enc in ("fwdot", "fwboth"):
            return urllib.parse.quote(s.replace(".", "\uff0e"))
        if s in (".", "..") and enc == "leaderdot":
            return urllib.parse.quote("\u2025" if s == ".." else "\u2024")
        return urllib.parse.quote(s)
    parts = [e(s) for s in segs]
    if enc == "pctslash" and len(parts) >= 2:
        parts = parts[:-2] + [parts[-2] + "%2f" + parts[-1]]
    if enc in ("allpctslash", "dblpctslash", "dblboth", "fwboth"):
        # every separator escaped (once / twice) or a look-alike: the whole target is one segment on the wire
        return "/" * case["lead"] + {"allpctslash": "%2F", "dblpctslash": "%252F", "dblboth": "%252f",
                                     "fwboth": urllib.parse.quote("\uff0f")}[enc].join(parts)
    return "/" * case["lead"] + "/".join(parts)


def render_norm(case):
    segs = [{"N1": "cal", "N2": "a.ics", "F": "new", "ABS": "ABS-outside", "OUT": "outside/cal/a.ics", "DIR": "user",
             "SIB": "sibling.txt"}.get(s, s)
            for s in case["norm"]]
    return "/" + "/".join(urllib.parse.quote(s) for s in segs)


def send(w, method, target):
    ics = gamma.ics_event("put-uid-9", "written by the path test")
    if method == "GET":
        return w.raw("GET", target)
    if method == "PROPFIND":
        return w.raw("PROPFIND", target, [("Depth", "1"), ("Content-Type", "text/xml")], gamma.PROPFIND_ALL)
    if method == "PUT":
        return w.raw("PUT", target, [("Content-Type", "text/calendar")], ics)
    if method == "POST":
        return w.raw("POST", target, [("Content-Type", "text/calendar")], ics)
    if method == "DELETE":
        return w.raw("DELETE", target)
    if method == "MKCOL":
        return w.raw("MKCOL", target)
    if method == "MKCALENDAR":
        return w.raw("MKCALENDAR", target)
    if method == "PROPPATCH":
        return w.raw("PROPPATCH", target, [("Content-Type", "text/xml")],
                     gamma.proppatch_body([("displayname", "renamed by the path test")]))
    if method == "SLUG":
        # the vector travels as the name hint of a POST to a normal calendar (Slug, RFC 5023 9.7)
        return w.raw("POST", "/cal/", [("Content-Type", "text/calendar"), ("Slug", target.lstrip("/"))], ics)
    if method == "UIDNAME":
        # the vector travels as the UID inside the body of a POST to a normal calendar, behind the
        # name of a directory that exists inside that calendar (a sub-collection a client made)
        w.raw("MKCOL", "/cal/sub")
        # (sub/../.. is the data root: from there the vector is the same one the path cases use)
        uid = "sub/../.." + (target if target.startswith("/") else "/" + target)
        return w.raw("POST", "/cal/", [("Content-Type", "text/calendar")],
                     gamma.ics_event(uid.replace("\r", "").replace("\n", ""), "written by the path test"))
    if method == "GITPUSH":
        return git_push_links(w)
    if method == "MULTIGET":
        # the vector travels as an href inside the body of a report on a normal calendar
        return w.raw("REPORT", "/cal/", [("Content-Type", "text/xml"), ("Depth", "1")],
                     gamma.multiget_body("calendar", [target]))
    raise ValueError(method)


def git_push_links(w):
    """The collection's git endpoint (smart HTTP receive-pack, routed by the WSGI front end): a
    client pushes a commit whose tree holds two SYMBOLIC LINKS that point outside the data
    root, then addresses them with ordinary paths.  -> the last response"""
    import io
    import stat as _stat
    from dulwich.repo import Repo
    from dulwich.objects import Blob, Tree, Commit
    from dulwich.pack import write_pack_objects
    from dulwich.protocol import pkt_line
    root = w.root
    base = os.path.dirname(root)
    repo = Repo(os.path.join(root, "cal"))
    try:
        head_ref = repo.refs.follow(b"HEAD")[0][-1]
        old = repo.refs[head_ref]
        tree = Tree()
        for e in repo[repo[old].tree].items():
            tree.add(e.path, e.mode, e.sha)
        ftarget = Blob.from_string(os.path.join(base, "outside", "file.txt").encode())
        dtarget = Blob.from_string(os.path.join(base, "outside").encode())
        tree.add(b"link.txt", _stat.S_IFLNK, ftarget.id)
        tree.add(b"ext", _stat.S_IFLNK, dtarget.id)
        c = Commit()
        c.tree = tree.id
        c.parents = [old]
        c.author = c.committer = b"client <client@example.invalid>"
        c.author_time = c.commit_time = 1700000000
        c.author_timezone = c.commit_timezone = 0
        c.message = b"sync"
        pack = io.BytesIO()
        try:
            write_pack_objects(pack.write, [(ftarget, None), (dtarget, None), (tree, None), (c, None)], repo.object_format)
        except (TypeError, AttributeError):
            write_pack_objects(pack.write, [(ftarget, None), (dtarget, None), (tree, None), (c, None)])
        body = pkt_line(old + b" " + c.id + b" " + head_ref + b"\0report-status") + pkt_line(None) + pack.getvalue()
    finally:
        repo.close()
    w.raw("POST", "/cal/.git/git-receive-pack", [("Content-Type", "application/x-git-receive-pack-request")], body)
    # ordinary requests with clean paths below the collection
    w.raw("PUT", "/cal/link.txt", [("Content-Type", "text/plain")], b"written through the link\n")
    w.raw("MKCOL", "/cal/ext/newcol")
    w.raw("PUT", "/cal/ext/cal/planted.ics", [("Content-Type", "text/calendar")], gamma.ics_event("planted-1", "planted"))
    w.raw("GET", "/cal/ext/cal/a.ics")
    return w.raw("PROPFIND", "/cal/ext/cal/", [("Depth", "1"), ("Content-Type", "text/xml")], gamma.PROPFIND_ALL)


def classify(paths, base, root):
    """Is a file-system event outside the data root?"""
    for p in paths:
        try:
            rp = os.path.realpath(p)
        except OSError:
            rp = os.path.abspath(p)
        if rp == root or rp.startswith(root + os.sep):
            continue
        # the system's temporary directory: libraries stage data there for an instant (dulwich
        # builds packs in it); what counts is what is LEFT there after the request
        if rp.startswith(os.path.join(base, "systmp") + os.sep) or rp == os.path.join(base, "systmp"):
            continue
        if rp == base or rp.startswith(base + os.sep):
            return rp
        if any(rp == a or rp.startswith(a.rstrip("/") + "/") for a in ALLOW_PREFIXES):
            continue
        if rp == os.path.dirname(base) or rp == "/" or rp == os.getcwd():
            continue
        return rp
    return None


def run_one(tmpl, case, method, frontend, leak_marker=b"SECRET outside the root"):
    rec = {"segs": case["segs"], "lead": case["lead"], "enc": case["enc"], "method": method,
           "frontend": frontend, "norm": case["norm"]}
    base = tmpl.fresh()
    root = os.path.join(base, "data")
    abs_path = os.path.join(base, "outside", "cal")
    target = render(case, abs_path)
    rec["target"] = target.replace(base, "<BASE>")
    rec["netpath"] = target.startswith("//")     # as an href: a network-path reference
    import tempfile
    systmp = os.path.join(base, "systmp")
    os.makedirs(systmp, exist_ok=True)
    try:
        before_out = {k: v for k, v in tree_state(base, skip_git=False).items() if not k.startswith("./data") and not k.startswith("data")}
        before_in = tree_state(root)
        # the system's temporary directory is a directory next to the root for the time of the
        # request: user data a request leaves there is user data outside the root
        old_tmp = tempfile.tempdir
        tempfile.tempdir = systmp
        if case.get("locked"):
            # another writer (or a crashed one) holds the collection's index lock
            lk = os.path.join(root, "cal", ".git", "index.lock")
            if os.path.isdir(os.path.dirname(lk)):
                open(lk, "wb").close()
        w = World(frontend=frontend, prefix="/", root=root, autocreate=False)
        try:
            with fsmon.Monitor() as mon:
                if method == "XMLENT":
                    # an XML request body that declares an external entity naming a file outside
                    # the root and uses it as a property value; then the value is read back
                    ent = ('<?xml version="1.0"?><!DOCTYPE d [<!ENTITY e SYSTEM "file://%s">]>'
                           '<D:propertyupdate xmlns:D="DAV:"><D:set><D:prop><D:displayname>&e;</D:displayname>'
                           '</D:prop></D:set></D:propertyupdate>' % os.path.join(abs_path, "a.ics")).encode()
                    w.raw("PROPPATCH", "/cal/", [("Content-Type", "text/xml")], ent)
                    w.raw("REPORT", "/cal/", [("Content-Type", "text/xml"), ("Depth", "1")],
                          ent.replace(b"D:propertyupdate", b"D:sync-collection"))
                    resp = w.raw("PROPFIND", "/cal/", [("Depth", "0"), ("Content-Type", "text/xml")], gamma.PROPFIND_ALL)
                else:
                    resp = send(w, method, target)
        finally:
            w.stop()
            tempfile.tempdir = old_tmp
        bad = []
        for (tid, ev, paths, wr) in mon.events:
            x = classify(paths, os.path.realpath(base), os.path.realpath(root))
            if x is not None:
                bad.append("%s %s" % (ev, x.replace(os.path.realpath(base), "<BASE>")))
        after_out = {k: v for k, v in tree_state(base, skip_git=False).items() if not k.startswith("./data") and not k.startswith("data")}
        rec["outside_events"] = len(bad)
        rec["outside_sample"] = bad[:4]
        rec["outside_changed"] = before_out != after_out     # (includes anything left in systmp)
        rec["locked"] = bool(case.get("locked"))
        rec["root_removed"] = not os.path.isdir(root)
        rec["leak"] = leak_marker in resp.body
        after_in = tree_state(root) if os.path.isdir(root) else {}
        rec["effect"] = sorted("%s:%s" % (k, "gone" if k not in after_in else "new" if k not in before_in else "changed")
                               for k in set(before_in) | set(after_in) if before_in.get(k) != after_in.get(k))
        cls, _ = alpha.response_class(resp)
        rec["cls"] = cls
        rec["status"] = resp.status
        rec["refused"] = cls not in ("ok", "notmodified", "redirect")
    finally:
        shutil.rmtree(base, ignore_errors=True)
    # twin: the same method on the normalised path
    if case["norm"] == ["LITERAL"]:
        rec["neffect"] = rec["effect"]
        rec["ncls"] = rec["cls"]
    elif rec["effect"] or not rec["refused"]:
        base2 = tmpl.fresh()
        try:
            root2 = os.path.join(base2, "data")
            b2 = tree_state(root2)
            w2 = World(frontend=frontend, prefix="/", root=root2, autocreate=False)
            try:
                r2 = send(w2, method, render_norm(case))
            finally:
                w2.stop()
            a2 = tree_state(root2) if os.path.isdir(root2) else {}
            rec["neffect"] = sorted("%s:%s" % (k, "gone" if k not in a2 else "new" if k not in b2 else "changed")
                                    for k in set(b2) | set(a2) if b2.get(k) != a2.get(k))
            rec["ncls"] = alpha.response_class(r2)[0]
            if method in ("POST",):
                # server-chosen names differ between the two worlds: compare shapes
                rec["effect"] = sorted(x.rsplit("/", 1)[0] + "/*" + x.rsplit(":", 1)[1] if x.endswith(":new") and ".ics" in x else x
                                       for x in rec["effect"])
                rec["neffect"] = sorted(x.rsplit("/", 1)[0] + "/*" + x.rsplit(":", 1)[1] if x.endswith(":new") and ".ics" in x else x
                                        for x in rec["neffect"])
        finally:
            shutil.rmtree(base2, ignore_errors=True)
    else:
        rec["neffect"] = []
        rec["ncls"] = rec["cls"]
    return rec
