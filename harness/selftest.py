"""./check --selftest : demonstrates that the trace specifications are bound to what
the harness records - an accepted recording with ONE field corrupted must be rejected
with the clause that guards that field.  (Not a property check; exit 0 = every
corruption was detected and the uncorrupted recordings were accepted.)"""
import copy
import json
import logging
import sys

from . import tlc


def _dav_trace():
    from . import gamma
    from .davdriver import DavSession
    s = DavSession(frontend="wsgi", prefix="/", backend="tree")
    try:
        s.mk("cal1", "calendar")
        s.mk("ab1", "addressbook")
        s.put("cal1", "a.ics", gamma.model_body(1)[0])
        s.put("cal1", "b.ics", gamma.model_body(3)[0])
        s.put("ab1", "c.vcf", gamma.model_body(5)[0])
        s.put("cal1", "a.ics", gamma.model_body(2)[0], im=["cur"])
        s.delete("cal1", "b.ics")
        s.proppatch("cal1", "displayname", "Self test")
        s.multiget("cal1", [("live", "a.ics"), ("missing", "zz.ics")])
        return s.trace(1)
    finally:
        s.close()


def _judge_dav(tr):
    from . import davcheck
    res, _ = davcheck.validate([tr], {})
    return [(v["p"], v["w"], v["i"]) for v in res[tr["id"]]["v"] if v["k"] == "viol"]


def dav_corruptions(tr):
    """(description, mutate(trace), property expected to be flagged)"""
    def audit(t, i):
        return t["events"][i]["audit"]["colls"]

    def c1(t):   # a resource other than the target changes its bytes
        audit(t, 5)["cal1"]["members"]["b.ics"]["x"] += 100
    def c2(t):   # one etag view disagrees
        audit(t, 3)["cal1"]["members"]["a.ics"]["views"][2] += 100
    def c3(t):   # a live member is missing from the listing
        audit(t, 3)["cal1"]["listing"].remove("b.ics")
    def c4(t):   # the collection tag does not change although the contents did
        audit(t, 3)["cal1"]["tags"] = list(audit(t, 2)["cal1"]["tags"])
        for r in audit(t, 3)["cal1"]["sync"]:
            r["token"] = audit(t, 3)["cal1"]["tags"][0]
    def c5(t):   # history rewritten: a commit disappears from the log
        audit(t, 5)["cal1"]["git"]["log"].pop(0)
    def c6(t):   # a sync report omits a changed member
        for r in audit(t, 3)["cal1"]["sync"]:
            if r["kind"] == "empty":
                r["changed"].pop("b.ics", None)
    def c7(t):   # the conditional PUT is recorded as carrying a stale etag, yet succeeded
        t["events"][5]["im"]["tags"] = [9999]
    def c8(t):   # a delete that leaves the member in place but answers success
        audit(t, 6)["cal1"]["members"]["b.ics"] = copy.deepcopy(audit(t, 5)["cal1"]["members"]["b.ics"])
        audit(t, 6)["cal1"]["listing"].append("b.ics")
    def c9(t):   # multiget serves different data than GET
        t["events"][8]["answers"][0]["xn"] += 100
    def c10(t):  # property set reported as success reads back differently
        audit(t, 7)["cal1"]["props"]["displayname"] += 100
    def c11(t):  # two members share a UID (body attribute table says so)
        t["bodies"][1]["uid"] = t["bodies"][0]["uid"]
    return [("bytes of another resource change", c1, "C01"), ("etag views disagree", c2, "C02"),
            ("listing misses a member", c3, "C16"), ("tag unchanged after a change", c4, "C08"),
            ("commit dropped from history", c5, "C09"), ("sync report omits a change", c6, "C07"),
            ("stale If-Match accepted", c7, "C03"), ("acknowledged delete without effect", c8, "C01"),
            ("multiget data differs from GET", c9, "C17"), ("property reads back differently", c10, "C15"),
            ("two members share a UID", c11, "C06")]


def run():
    logging.disable(logging.CRITICAL)
    ok = True
    tr = _dav_trace()
    base = _judge_dav(copy.deepcopy(tr))
    print("Dav trace, uncorrupted: %s" % ("accepted" if not base else "REJECTED %r" % base))
    ok = ok and not base
    for desc, mut, prop in dav_corruptions(tr):
        t = copy.deepcopy(tr)
        mut(t)
        got = _judge_dav(t)
        hit = any(p == prop for (p, w, i) in got)
        print("  corrupt: %-40s -> %s %s" % (desc, "detected" if hit else "MISSED", sorted(set((p, w) for p, w, i in got))[:3]))
        ok = ok and hit
    # Lin: flip the final state of a sequential run
    from . import racedriver as rd
    tmpl = rd.Template("tree", {"a": 1})
    try:
        r = rd.run_schedule(tmpl, {"t": "put", "n": "a", "b": 2, "cond": 1}, {"t": "put", "n": "b", "b": 3, "cond": 0},
                            [("A", None), ("B", None)])
    finally:
        tmpl.close()
    r["pair"] = "put-put"
    r["id"] = 1
    from . import racecheck
    v0, _ = racecheck.judge([copy.deepcopy(r)], {})
    bad = copy.deepcopy(r)
    bad["final"] = {"a": 1}
    bad["mid"] = {"a": 1}      # the pair is judged against the state right after it
    v1, _ = racecheck.judge([bad], {})
    print("Lin: sequential run %s ; lost update injected -> %s" % (v0[1]["clause"], v1[1]["clause"]))
    ok = ok and v0[1]["clause"] == "ok" and v1[1]["clause"] != "ok"
    ok = more_bindings() and ok
    print("selftest " + ("ok" if ok else "FAILED"))
    return 0 if ok else 2


def more_bindings():
    """The other trace specifications: one accepted recording each, then one corrupted field."""
    ok = True
    # ReadOverlapTrace: data the report asked for is missing from the overlapped answer
    from . import reportrace
    recs = reportrace.run_pair("multiget-data/multiget-etag", maxruns=2)
    res0, _ = tlc.validate_traces("ReadOverlapTrace", "ReadOverlapTrace.cfg", {"recs": recs})
    bad = copy.deepcopy(recs)
    first = sorted(bad[0]["got"])[0]
    bad[0]["got"][first][2] = 0
    res1, _ = tlc.validate_traces("ReadOverlapTrace", "ReadOverlapTrace.cfg", {"recs": bad})
    hit = any(v["k"] == "viol" and v["w"] == "data-asked-for-is-missing" for v in res1)
    print("ReadOverlap: recorded %s ; data dropped from one answer -> %s" % (
        "accepted" if not [v for v in res0 if v["k"] == "viol"] else "REJECTED", "detected" if hit else "MISSED"))
    ok = ok and hit and not [v for v in res0 if v["k"] == "viol"]
    # IndexTrace: a query answer that differs from the history-free evaluation
    from . import indexdriver as ixd, indexcheck
    tr = ixd.run_ops([["put", "a", "jan"], ["put", "b", "feb"], ["query", "tJan"], ["query", "fA"]], "store", 1, "tree", tid=1)
    tr["id"] = 1
    indexcheck.label(tr)
    r0, _ = tlc.validate_traces("IndexTrace", "IndexTrace.cfg", {"traces": [copy.deepcopy(tr)]},
                                constants={"EnabledDevs": tlc.tla_set({})})
    bad = copy.deepcopy(tr)
    q = [e for e in bad["events"] if e["op"] == "Query"][-1]
    q["got"] = q["got"][:-1]
    indexcheck.label(bad)
    r1, _ = tlc.validate_traces("IndexTrace", "IndexTrace.cfg", {"traces": [bad]},
                                constants={"EnabledDevs": tlc.tla_set({})})
    v0 = [v for r in r0 for v in r["v"] if v["k"] == "viol"]
    v1 = [v for r in r1 for v in r["v"] if v["k"] == "viol"]
    print("Index: recorded %s ; one member dropped from an answer -> %s" % (
        "accepted" if not v0 else "REJECTED", "detected" if v1 else "MISSED"))
    ok = ok and not v0 and bool(v1)
    # CrashTrace: a crash image that shows neither the old nor the new state
    from . import crashdriver as cd, gamma
    from .alpha import Interner
    C = Interner()
    b1 = gamma.ics_event("st-1", "one")
    b2 = gamma.ics_event("st-1", "two", dtstart="20200107T100000Z", dtend="20200107T120000Z")
    r = cd.run_op_with_images("tree", [{"t": "put", "n": "a.ics", "data": b1}], {"t": "put", "n": "a.ics", "data": b2}, C)
    rec = {"id": 1, "kind": "tree", "t": "put", "n": "a.ics", "prior": "one", "opname": "replace", "expect": 0,
           "pre": r["pre"], "final": r["final"], "oper_error": r["oper_error"],
           "images": [{"k": im["k"], "gate": im["gate"], "torn": im["torn"], "obs": im["obs"], "rerr": im.get("rerr", "")} for im in r["images"]],
           "gates": r["gates"], "nevents": r["nevents"], "basekind": "tree"}
    c0, _ = tlc.validate_traces("CrashTrace", "CrashTrace.cfg", {"ops": [copy.deepcopy(rec)], "locale": []},
                                constants={"EnabledDevs": tlc.tla_set({})})
    bad = copy.deepcopy(rec)
    plain = [im for im in bad["images"] if im["torn"] == ""]
    plain[len(plain) // 2]["obs"]["vis"]["a.ics"] = 424242
    c1, _ = tlc.validate_traces("CrashTrace", "CrashTrace.cfg", {"ops": [bad], "locale": []},
                                constants={"EnabledDevs": tlc.tla_set({})})
    hit = any(v["clause"] == "neither-old-nor-new" for v in c1)
    print("Crash: recorded images %s ; one image shows other contents -> %s" % (
        "accepted" if not c0 else "REJECTED %r" % [v["clause"] for v in c0][:3], "detected" if hit else "MISSED"))
    ok = ok and not c0 and hit
    return ok
