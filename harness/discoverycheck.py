"""C18: service discovery leads to the user's collections in every deployment layout."""
import itertools
import json
import logging
import multiprocessing
import os
import random
import traceback

from . import common, tlc

# the same mount points spelled with and without the trailing slash
PREFIXES = ["/", "/dav/", "/a/b/", "/dav", "/a/b"]
PRINCIPALS = ["/user/", "/user", "/users/me/", "/u/x/y/"]
FLAGSEQS = [["defaults"], ["defaults", "none"], ["defaults", "defaults"], ["autocreate", "defaults"],
            ["defaults", "autocreate", "none"], ["autocreate"], ["defaults", "none", "defaults"],
            ["autocreate", "none"], ["none"]]


def _work(job):
    logging.disable(logging.CRITICAL)
    from . import discovery
    try:
        return {"ok": True, "run": discovery.run_config(job["frontend"], job["prefix"], job["principal"], job["flags"],
                                                        storage=job.get("storage", "tree"))}
    except Exception:
        return {"ok": False, "error": traceback.format_exc()}


def model_check():
    res = tlc.run_tlc("Discovery", cfg_file=os.path.join(tlc.SPEC_DIR, "Discovery.cfg"), workers=8, timeout=600)
    if "Model checking completed. No error has been found." not in res["out"]:
        common.machinery_failure("TLC on Discovery failed:\n" + res["out"][-3000:])
    return {"states": res["states"], "distinct": res["distinct"]}


def run(prop, tier, seed, replay=None):
    rep = common.Report(prop, tier, seed, "model_checking")
    devs = common.open_devs("Discovery")
    quick = tier == "quick"
    rng = random.Random(seed)
    mc = model_check()
    combos = list(itertools.product(["aiohttp", "wsgi"], PREFIXES, PRINCIPALS, range(len(FLAGSEQS))))
    if replay:
        r = json.load(open(replay))["run"]
        jobs = [{"frontend": r["frontend"], "prefix": r["prefix"], "principal": r["principal"], "flags": r["flags"],
                 "storage": r.get("storage", "tree")}]
    else:
        if quick:
            # every front end x prefix x principal once, flag sequences rotated; plus every flag
            # sequence once per front end
            picked = []
            for i, (f, p, pr) in enumerate(itertools.product(["aiohttp", "wsgi"], PREFIXES, PRINCIPALS)):
                picked.append((f, p, pr, (i + seed) % len(FLAGSEQS)))
            for f in ("aiohttp", "wsgi"):
                for k in range(len(FLAGSEQS)):
                    picked.append((f, PREFIXES[(k + 1) % len(PREFIXES)], PRINCIPALS[k % 4], k))
            combos = sorted(set(picked))
        jobs = [{"frontend": f, "prefix": p, "principal": pr, "flags": FLAGSEQS[k]} for (f, p, pr, k) in combos]
        # some deployments: the default calendar is converted to a bare repository between two
        # lifetimes (sequences with a later start, in particular one with --defaults)
        for j, (f, p, pr, k) in enumerate(combos):
            if len(FLAGSEQS[k]) >= 2 and (j % 3 == 0 or not quick):
                jobs.append({"frontend": f, "prefix": p, "principal": pr, "flags": FLAGSEQS[k], "storage": "bare"})
            # ... or moves to another volume and is linked back
            if len(FLAGSEQS[k]) >= 2 and (j % 3 == 1 or not quick):
                jobs.append({"frontend": f, "prefix": p, "principal": pr, "flags": FLAGSEQS[k], "storage": "moved"})
    with multiprocessing.get_context("fork").Pool(12) as pool:
        outs = pool.map(_work, jobs, chunksize=1)
    runs = []
    for o in outs:
        if not o["ok"]:
            common.machinery_failure("harness exception:\n" + o["error"])
        runs.append(o["run"])
    results, stat = tlc.validate_traces("DiscoveryTrace", "DiscoveryTrace.cfg", {"runs": runs},
                                        constants={"EnabledDevs": tlc.tla_set(devs)})
    for v in sorted(results, key=lambda v: (v["dev"], v["i"])):
        r = runs[v["i"] - 1]
        if v["k"] == "known":
            rep.known_finding(v["dev"], devs.get(v["dev"], {}).get("what", v["dev"]))
        else:
            rep.violation("%s: prefix=%s principal=%s flags=%s start#%d trail=%s" % (
                v["dev"], r["prefix"], r["principal"], r["flags"], v["start"], r["starts"][v["start"] - 1]["trail"][:400]),
                {"property": prop, "verdict": v, "run": r})
    nstarts = sum(len(r["starts"]) for r in runs)
    rep.coverage.update({
        "states": mc["distinct"] + stat["distinct"],
        "transitions": mc["states"] + nstarts,
        "traces_validated_against_impl": len(runs),
        "evaluations": nstarts,
        "distinct_nontrivial": len({(r["frontend"], r["prefix"], r["principal"], tuple(r["flags"])) for r in runs}),
        "rule": "one trace = one deployment (front end x route prefix x principal path x sequence of starts with "
                "none/--autocreate/--defaults) run as real server processes (python -m xandikos; xandikos.wsgi in a "
                "fresh interpreter behind WellknownRedirector); one evaluation = one start with the full discovery "
                "walk using only emitted hrefs, user data written after the first start and re-read after every "
                "restart, and a digest of the data directory before/after each start",
        "samples": [{k: r[k] for k in ("frontend", "prefix", "principal", "flags")} |
                    {"first_trail": r["starts"][0]["trail"][:300]} for r in runs[:2]],
        "exhaustive": not quick,
    })
    rep.assumptions += ["harness/compat.py is loaded by the launchers before xandikos (library drift, DESIGN 1.2a)",
                        "the WSGI deployment is served by wsgiref with a Content-Length limited input stream"]
    return rep.finish()
