"""Grammar-based generators for valid iCalendar objects and vCards (C14, C01, C02):
line endings, folding at arbitrary octet positions, escapes, parameters, quoted
parameter values, non-ASCII text, VTIMEZONE / VALARM sub-components, recurrence
properties, overrides.  Deterministic in the rng; every generated body is labelled
valid by construction (the server must accept it) - invalid classes live in davgen."""
import datetime

WORDS = ["Meeting", "Lunch", "Zoë", "naïve café", "日本語", "a,b", "semi;colon", "back\\slash", "line\nbreak",
         "quote\"d", "colon:ed", "tab\there", "x" * 90, "émoji ☃", "trailing space ", "=equals=", "#hash", "%percent",
         # beyond the basic multilingual plane (4-octet UTF-8), XML-significant characters, bidi / combining marks
         "party \U0001F382\U0001F389", "clef \U0001D11E", "ext-B \U00020000", "<tag> & \"amp\" ]]>", "e\u0301 \u200f rtl",
         "\ufffd replacement", "nbsp\u00a0end"]
TZIDS = ["Europe/Berlin", "America/New_York"]

VTIMEZONE = {
    "Europe/Berlin": ["BEGIN:VTIMEZONE", "TZID:Europe/Berlin", "LAST-MODIFIED:20240422T053450Z",
                      "BEGIN:STANDARD", "DTSTART:19701025T030000", "TZOFFSETFROM:+0200", "TZOFFSETTO:+0100",
                      "TZNAME:CET", "RRULE:FREQ=YEARLY;BYMONTH=10;BYDAY=-1SU", "END:STANDARD",
                      "BEGIN:DAYLIGHT", "DTSTART:19700329T020000", "TZOFFSETFROM:+0100", "TZOFFSETTO:+0200",
                      "TZNAME:CEST", "RRULE:FREQ=YEARLY;BYMONTH=3;BYDAY=-1SU", "END:DAYLIGHT", "END:VTIMEZONE"],
    "America/New_York": ["BEGIN:VTIMEZONE", "TZID:America/New_York", "BEGIN:STANDARD", "DTSTART:19701101T020000",
                         "TZOFFSETFROM:-0400", "TZOFFSETTO:-0500", "TZNAME:EST", "END:STANDARD", "END:VTIMEZONE"],
}


def esc(text):
    return text.replace("\\", "\\\\").replace(";", "\\;").replace(",", "\\,").replace("\n", "\\n")


def dt(rng, base=None):
    d = (base or datetime.datetime(2021, 1, 1, 9, 0)) + datetime.timedelta(days=rng.randint(0, 300),
                                                                          hours=rng.randint(0, 23),
                                                                          minutes=rng.choice([0, 15, 30, 45]))
    return d


def fold_random(rng, line, eol):
    """Fold a content line at random octet boundaries (never inside a UTF-8 sequence)."""
    raw = line.encode("utf-8")
    if len(raw) < 12 or rng.random() < 0.4:
        # standard folding at 75 octets
        out, cur = [], b""
        for ch in line:
            e = ch.encode("utf-8")
            if len(cur) + len(e) > 75:
                out.append(cur)
                cur = b" " + e
            else:
                cur += e
        out.append(cur)
        return eol.encode().join(out)
    out, cur = [], b""
    nxt = rng.randint(3, 40)
    for ch in line:
        e = ch.encode("utf-8")
        if len(cur) >= nxt:
            out.append(cur)
            cur = rng.choice([b" ", b"\t"]) + e
            nxt = rng.randint(3, 60)
        else:
            cur += e
    out.append(cur)
    return eol.encode().join(out)


def gen_component(rng, kind, uid, tzid=None, recur=False, override_of=None):
    lines = ["BEGIN:" + kind, "UID:" + uid, "DTSTAMP:%s" % dt(rng).strftime("%Y%m%dT%H%M%SZ")]
    start = dt(rng)
    if kind in ("VEVENT", "VTODO", "VJOURNAL") and (kind != "VTODO" or rng.random() < 0.7):
        mode = rng.choice(["utc", "float", "date"] + (["tzid"] if tzid else []))
        if mode == "utc":
            lines.append("DTSTART:" + start.strftime("%Y%m%dT%H%M%SZ"))
        elif mode == "float":
            lines.append("DTSTART:" + start.strftime("%Y%m%dT%H%M%S"))
        elif mode == "date":
            lines.append("DTSTART;VALUE=DATE:" + start.strftime("%Y%m%d"))
        else:
            lines.append("DTSTART;TZID=%s:%s" % (tzid, start.strftime("%Y%m%dT%H%M%S")))
        if kind == "VEVENT":
            r = rng.random()
            if r < 0.4 and mode != "date":
                end = start + datetime.timedelta(minutes=rng.choice([30, 60, 90, 600]))
                fmt = {"utc": "DTEND:%sZ", "float": "DTEND:%s", "tzid": "DTEND;TZID=" + (tzid or "") + ":%s"}[mode]
                lines.append(fmt % end.strftime("%Y%m%dT%H%M%S"))
            elif r < 0.6:
                lines.append("DURATION:" + rng.choice(["PT1H", "PT30M", "P1D", "PT0S"]) if mode != "date" else "DURATION:P1D")
    if kind == "VTODO" and rng.random() < 0.5:
        lines.append("DUE:" + (start + datetime.timedelta(days=2)).strftime("%Y%m%dT%H%M%SZ"))
    if override_of is not None:
        lines.append("RECURRENCE-ID:" + override_of.strftime("%Y%m%dT%H%M%SZ"))
    elif recur:
        lines.append("RRULE:" + rng.choice(["FREQ=DAILY;COUNT=5", "FREQ=WEEKLY;BYDAY=MO,WE;COUNT=4",
                                            "FREQ=MONTHLY;INTERVAL=2;COUNT=3"]))
        if rng.random() < 0.5:
            lines.append("EXDATE:" + (start + datetime.timedelta(days=1)).strftime("%Y%m%dT%H%M%SZ"))
    for prop in rng.sample(["SUMMARY", "DESCRIPTION", "LOCATION", "COMMENT"], rng.randint(1, 3)):
        lines.append("%s:%s" % (prop, esc(rng.choice(WORDS))))
    if rng.random() < 0.04:
        # a body larger than any socket / stream buffer of the front ends (read in several chunks)
        lines.append("X-BULK:" + "".join(rng.choice("abcdefghij") for _ in range(64)) * rng.choice([400, 1100, 3000]))
    if rng.random() < 0.4:
        lines.append("CATEGORIES:" + ",".join(esc(w) for w in rng.sample(WORDS[:6], 2)))
    if rng.random() < 0.4:
        cn = rng.choice(["Jane Doe", "Doe, John", "Zoë"])
        cnq = '"%s"' % cn if ("," in cn or rng.random() < 0.5) else cn
        lines.append("ATTENDEE;CN=%s;PARTSTAT=%s;RSVP=TRUE:mailto:%s@example.com"
                     % (cnq, rng.choice(["ACCEPTED", "DECLINED", "NEEDS-ACTION"]), rng.choice(["a", "b", "c"])))
    if rng.random() < 0.3:
        lines.append("ORGANIZER;CN=Boss:mailto:boss@example.com")
    if rng.random() < 0.5:
        lines.append("SEQUENCE:%d" % rng.randint(0, 9))
    if rng.random() < 0.4:
        lines.append("LAST-MODIFIED:" + dt(rng).strftime("%Y%m%dT%H%M%SZ"))
    if rng.random() < 0.3:
        lines.append("CREATED:" + dt(rng).strftime("%Y%m%dT%H%M%SZ"))
    if rng.random() < 0.3:
        lines.append("X-CUSTOM-PROP;X-PARAM=1:%s" % esc(rng.choice(WORDS)))
    if kind in ("VEVENT", "VTODO") and rng.random() < 0.35:
        lines += ["BEGIN:VALARM", "ACTION:DISPLAY", "DESCRIPTION:%s" % esc(rng.choice(WORDS)),
                  "TRIGGER:%s" % rng.choice(["-PT15M", "-P1D", "PT0S"]), "END:VALARM"]
    lines.append("END:" + kind)
    return lines, start


def gen_ics(rng, uid):
    """-> bytes of a valid VCALENDAR with one UID (possibly several components)."""
    tzid = rng.choice(TZIDS) if rng.random() < 0.4 else None
    lines = ["BEGIN:VCALENDAR", "VERSION:2.0", "PRODID:-//verif//icsgen//EN"]
    if rng.random() < 0.3:
        lines.append("CALSCALE:GREGORIAN")
    if tzid:
        lines += VTIMEZONE[tzid]
    kind = rng.choice(["VEVENT", "VEVENT", "VEVENT", "VTODO", "VJOURNAL"])
    recur = kind == "VEVENT" and rng.random() < 0.3
    comp, start = gen_component(rng, kind, uid, tzid, recur=recur)
    lines += comp
    if recur and rng.random() < 0.6:
        ov, _ = gen_component(rng, kind, uid, tzid, override_of=start + datetime.timedelta(days=7))
        lines += ov
    lines.append("END:VCALENDAR")
    eol = rng.choice(["\r\n", "\r\n", "\n"])
    body = eol.encode().join(fold_random(rng, ln, eol) for ln in lines) + eol.encode()
    return body


def gen_vcard(rng, uid=None):
    fn = rng.choice(["Ada Lovelace", "Zoë Müller", "O'Brien; Pat", "名前", "a, b"])
    lines = ["BEGIN:VCARD", "VERSION:3.0", "FN:" + esc(fn), "N:%s;;;;" % esc(fn)]
    if uid:
        lines.append("UID:" + uid)
    for _ in range(rng.randint(0, 3)):
        lines.append("EMAIL;TYPE=%s:%s@example.com" % (rng.choice(["work", "home", "INTERNET,pref"]), rng.choice("abcd")))
    if rng.random() < 0.5:
        lines.append("NOTE:" + esc(rng.choice(WORDS)))
    if rng.random() < 0.3:
        lines.append("TEL;TYPE=cell:+1 555 %04d" % rng.randint(0, 9999))
    if rng.random() < 0.3:
        lines.append("NICKNAME:" + ",".join(["zed", "zo"]))
    lines.append("END:VCARD")
    eol = rng.choice(["\r\n", "\r\n", "\n"])
    return eol.encode().join(fold_random(rng, ln, eol) for ln in lines) + eol.encode()
