"""C10: query results do not depend on the query history (index transparency)."""
import json
import logging
import multiprocessing
import os
import random
import re
import traceback

from . import common, tlc


def _quiet():
    logging.disable(logging.CRITICAL)
    try:
        os.dup2(open(os.devnull, "w").fileno(), 2)
    except OSError:
        pass


def _work(job):
    _quiet()
    from . import indexdriver as ix
    try:
        if job["kind"] == "model":
            tr = ix.run_model_behaviour(job["states"], job["level"], job["threshold"], job["seed"])
        elif job["kind"] == "ops":
            tr = ix.run_ops(job["ops"], job["level"], job["threshold"], job.get("store", "tree"))
        else:
            tr = ix.run_random(job["seed"], job["level"], job["threshold"], job.get("store", "tree"),
                               length=job.get("length", 40))
        tr["job"] = {k: v for k, v in job.items() if k != "states"}
        tr.pop("ops", None)
        return {"ok": True, "trace": tr}
    except Exception:
        return {"ok": False, "error": traceback.format_exc()}


def label(tr):
    """Labels used only to *name* a finding (the verdict got = want is TLC's)."""
    from . import indexdriver as ix
    for ev in tr["events"]:
        if ev["op"] != "Query":
            continue
        diff = set(ev["got"]) ^ set(ev["want"])
        cls = sorted({ev["classes"].get(n, "gone") for n in diff})
        if ev["goterr"] != ev["wanterr"]:
            cls.append("error")
        ev["diffcls"] = "+".join(cls) if cls else "none"
        fx = ix.FILTERS[ev["f"].partition("@")[0]]
        # (a prop-filter is-not-defined directly inside the component filter, nothing else)
        ev["fkind"] = "time-range" if "time-range" in fx else \
            "prop-is-not-defined" if ev["f"] in ("noSum", "fC", "noLoc") else "other"


def model_check(threshold, lossy, depth):
    cfg = ("SPECIFICATION Spec\nCONSTANTS\n  Threshold = %d\n  Lossy = %s\n  MaxDepth = %d\n"
           "INVARIANT Transparent\nINVARIANT IndexWellFormed\nCONSTRAINT Bound\nCHECK_DEADLOCK FALSE\n"
           % (threshold, "TRUE" if lossy else "FALSE", depth))
    res = tlc.run_tlc("IndexMgrMC", cfg_text=cfg, workers=16, timeout=1500)
    ok = "Model checking completed. No error has been found." in res["out"]
    viol = "Invariant Transparent is violated" in res["out"]
    if not ok and not viol:
        common.machinery_failure("TLC on IndexMgrMC failed:\n" + res["out"][-3000:])
    return {"threshold": threshold, "lossy_extract": lossy, "transparent": ok, "states": res["states"],
            "distinct": res["distinct"], "depth": depth}


def run(prop, tier, seed, replay=None):
    rep = common.Report(prop, tier, seed, "model_checking")
    devs = common.open_devs("Index")
    quick = tier == "quick"
    rng = random.Random(seed + 1010)
    models = []
    jobs = []
    if replay:
        r = json.load(open(replay))
        jobs = [r["job"]]
        if jobs[0]["kind"] == "model":
            jobs[0]["states"] = r["states"]
    else:
        depth = 8 if quick else 10
        for th in (0, 1):
            models.append(model_check(th, False, depth))
        models.append(model_check(0, True, depth))
        if not all(m["transparent"] for m in models if not m["lossy_extract"]):
            common.machinery_failure("IndexMgr protocol is not transparent under IdxSound: %r" % models)
        # spec -> code: simulated behaviours of IndexMgrMC, thresholds 0 and 1
        nsim = 20 if quick else 200
        for th in (0, 1):
            cfgname = "IndexMgrMC_sim%d.cfg" % th
            path = os.path.join(tlc.SPEC_DIR, cfgname)
            behs, _ = tlc.simulate_behaviours("IndexMgrMC", cfgname, nsim, 25 if quick else 40, seed=seed + th)
            for b in behs:
                jobs.append({"kind": "model", "states": b, "level": rng.choice(["store", "http"]),
                             "threshold": th, "seed": rng.randrange(1 << 30)})
        # code -> spec: random histories, all thresholds, store API on every store kind + HTTP
        nrand = 40 if quick else 500
        for k in range(nrand):
            level = "http" if k % 4 == 0 else "store"
            store = "tree" if level == "http" else ["tree", "bare", "mem", "vdir"][k % 4]
            from . import indexdriver as ixd
            jobs.append({"kind": "ops", "level": level, "store": store,
                         "threshold": rng.choice([0, 1, 2, None, None]),
                         "ops": ixd.random_ops(rng.randrange(1 << 30), 40 if quick else 70)})
        # directed histories: flows that must be exercised whatever the generator draws
        DIRECTED = [
            # a damaged member seen by index-backed queries, then repaired under its name
            [["put", "a", "bad"], ["put", "b", "m1"]] + [["query", "fA"]] * 4 + [["query", "hasLoc"]] * 3 +
            [["put", "a", "m1"]] + [["query", "fA"]] * 2 + [["query", "hasLoc"]] * 2 +
            [["put", "b", "bad"]] + [["query", "fA"]] * 2 + [["delete", "b"], ["put", "b", "m2"]] +
            [["query", "fA"], ["query", "fB"], ["query", "hasLoc"]],
            # two events of which one lacks the property, asked for "property not defined";
            # values with escaped characters asked for by their text
            [["put", "a", "sumMix"], ["put", "b", "esc"], ["put", "c", "jan"]] + [["query", "noSum"]] * 3 +
            [["query", "sumEsc"]] * 3 + [["query", "locEsc"]] * 3 + [["put", "d", "sumMix"], ["delete", "a"]] +
            [["query", "noSum"], ["query", "sumEsc"], ["query", "fA"]],
            # a parameter text-match answered from the index, then is-not-defined on the same key
            [["put", "a", "att"], ["put", "b", "attN"], ["put", "c", "jan"], ["put", "d", "att2"]] +
            [["query", "partstat"]] * 4 + [["query", "noPartstat"]] * 3 + [["query", "declined"]] * 2 +
            [["query", "noPartstat"], ["query", "partstat"], ["query", "hasAtt"]],
            # one filter asked under different time zones of the query
            [["put", "a", "float"], ["put", "b", "allday"], ["put", "c", "jan"], ["put", "d", "floatIn"]] +
            [["query", "tJan"]] * 4 + [["query", "tJan@America/New_York"]] * 2 + [["query", "tJan@Asia/Tokyo"]] * 2 +
            [["query", "tFeb@America/New_York"], ["query", "tFeb"], ["query", "tFeb@Asia/Tokyo"], ["query", "tJan"]],
            # a read that transforms what it returns (expansion of recurrences) between queries
            # that look at what the expansion removes
            [["put", "a", "weekly"], ["put", "b", "jan"], ["query", "hasRrule"], ["query", "noRrule"], ["expand"]] +
            [["query", "hasRrule"]] * 4 + [["query", "noRrule"]] * 4 + [["expand"], ["put", "c", "weekly"]] +
            [["query", "hasRrule"], ["query", "noRrule"], ["query", "tJan"]],
        ]
        for ops in DIRECTED:
            for level, store, th in (("store", "tree", 0), ("store", "tree", 1), ("store", "mem", 2),
                                     ("store", "vdir", 1), ("store", "bare", 0), ("http", "tree", 1),
                                     ("http", "tree", 0), ("http", "tree", None)):
                jobs.append({"kind": "ops", "level": level, "store": store, "threshold": th, "ops": ops})
        # the witness history of every listed (open) finding, re-run as recorded
        for d, e in sorted(devs.items()):
            if e.get("witness"):
                jobs.append(dict(e["witness"], witness_of=d))
    with multiprocessing.get_context("fork").Pool(15) as pool:
        outs = pool.map(_work, jobs, chunksize=1)
    traces = []
    for i, (job, o) in enumerate(zip(jobs, outs)):
        if not o["ok"]:
            common.machinery_failure("harness exception:\n" + o["error"])
        o["trace"]["id"] = i + 1
        label(o["trace"])
        traces.append(o["trace"])
    jobinfo = {t["id"]: t.pop("job", None) for t in traces}      # (may hold nulls: not for TLC)
    results, stat = tlc.validate_traces("IndexTrace", "IndexTrace.cfg", {"traces": traces},
                                        constants={"EnabledDevs": tlc.tla_set(devs)})
    by = {t["id"]: t for t in traces}
    first = {}
    for r in results:
        got = {v["dev"] for v in r["v"] if v["k"] in ("known", "viol")}
        j = jobinfo.get(r["id"]) or {}
        for d in sorted(got):
            if d not in first and j.get("kind") == "ops":
                first[d] = {k: v for k, v in j.items() if k != "witness_of"}
        if j.get("witness_of") and j["witness_of"] not in got:
            rep.note("the witness history of listed finding %s no longer shows it" % j["witness_of"])
    if not replay:
        os.makedirs(os.path.join(common.OUT_DIR, "witness"), exist_ok=True)
        json.dump(first, open(os.path.join(common.OUT_DIR, "witness", "Index.json"), "w"), indent=1, sort_keys=True)
    nq = 0
    distinct = set()
    for t in traces:
        for e in t["events"]:
            if e["op"] == "Query":
                nq += 1
                distinct.add((e["f"], tuple(e["avail"]), tuple(sorted(e["classes"].values())), tuple(e["got"])))
    for r in results:
        t = by[r["id"]]
        for v in sorted(r["v"], key=lambda v: v["i"]):
            ev = t["events"][v["i"] - 1]
            if v["k"] == "viol":
                rep.violation("%s: query %s at step %d (level %s, threshold %s, store %s): %s" % (
                    v["dev"], ev["f"], v["i"], t["level"], t["threshold"], t["store"], v["d"][:400]),
                    {"property": prop, "verdict": v, "job": jobinfo.get(r["id"]), "trace": t,
                     "states": jobs[r["id"] - 1].get("states")})
            elif v["k"] == "known":
                rep.known_finding(v["dev"], devs.get(v["dev"], {}).get("what", v["dev"]))
            elif v["k"] == "drift":
                rep.note("model-drift: trace %s step %d: %s" % (r["id"], v["i"], v["d"][:300]))
    refused = sorted({x for t in traces for x in t.get("refused", [])})
    if refused:
        rep.note("uploads refused by the server (body class: reason): " + ", ".join(refused))
    rep.notes = sorted(set(rep.notes))[:10]
    rep.coverage.update({
        "states": sum(m["distinct"] for m in models) + stat["distinct"],
        "transitions": sum(m["states"] for m in models) + sum(len(t["events"]) for t in traces),
        "traces_validated_against_impl": len(traces),
        "evaluations": nq,
        "distinct_nontrivial": len(distinct),
        "rule": "one evaluation = one query executed on the real store and compared with the history-free oracle; "
                "distinct = distinct (filter, available index keys, classes of the members present, result)",
        "samples": [{"level": t["level"], "threshold": t["threshold"], "store": t["store"],
                     "events": [{k: e[k] for k in e if k in ("op", "f", "n", "body", "got", "want", "avail")}
                                for e in t["events"][:14]]} for t in traces[:2]],
        "model": models,
    })
    rep.assumptions += ["the oracle is the real filter.check() evaluated on every current member by a store object "
                        "that never answered a query before (correctness of check() itself is C11's subject)",
                        "harness/compat.py library shims"]
    return rep.finish()
