SPECIFICATION Spec
POSTCONDITION Write
CHECK_DEADLOCK FALSE
