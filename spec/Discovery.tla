------------------------------ MODULE Discovery ------------------------------
(***************************************************************************)
(* C18: service discovery and server life cycle.                            *)
(*                                                                          *)
(* State: what exists below the data directory (the principal directory,    *)
(* the two home sets, the default collections with their types, user        *)
(* collections and user members) and whether the server runs.               *)
(* Start(flags) creates what the flags ask for - idempotently, never        *)
(* removing or re-initialising anything; Stop; user writes while running.   *)
(* The client walk uses emitted hrefs only:                                 *)
(*    root --current-user-principal--> principal --home sets--> Depth 1     *)
(*                                                                          *)
(* Properties (checked by TLC on the model; the same predicates judge the   *)
(* recorded life cycles of the real server in DiscoveryTrace.tla):          *)
(*   ReachesAfterDefaults : once started with --defaults, every later       *)
(*        running state lets the walk reach a calendar and an address book  *)
(*        with the right resource types                                     *)
(*   StartPreserves : no Start removes or changes anything that existed     *)
(***************************************************************************)
EXTENDS Naturals, Sequences, FiniteSets, TLC

Flags == {"none", "autocreate", "defaults"}

VARIABLES
    exists,     \* set of things that exist: "principal", "calhome", "abhome", "calendar", "addressbook", "inbox"
    types,      \* thing -> resource type recorded on disk
    user,       \* set of user-created things (members, extra collections)
    running,    \* the server process is up
    everDefaults
vars == <<exists, types, user, running, everDefaults>>

DefaultType(t) == CASE t = "calendar" -> "calendar" [] t = "addressbook" -> "addressbook"
                    [] t = "inbox" -> "schedule-inbox" [] OTHER -> "collection"

Init == exists = {} /\ types = <<>> /\ user = {} /\ running = FALSE /\ everDefaults = FALSE

Created(f) ==
    CASE f = "none" -> {}
      [] f = "autocreate" -> {"principal", "calhome", "abhome"}
      [] OTHER -> {"principal", "calhome", "abhome", "calendar", "addressbook", "inbox"}

Start(f) ==
    /\ ~running
    /\ exists' = exists \cup Created(f)
    /\ types' = [t \in exists' |-> IF t \in DOMAIN types THEN types[t] ELSE DefaultType(t)]
    /\ running' = TRUE
    /\ everDefaults' = (everDefaults \/ f = "defaults")
    /\ UNCHANGED user
Stop == running /\ running' = FALSE /\ UNCHANGED <<exists, types, user, everDefaults>>
UserWrite(x) ==
    /\ running /\ "calendar" \in exists
    /\ user' = user \cup {x}
    /\ UNCHANGED <<exists, types, running, everDefaults>>

Next == (\E f \in Flags : Start(f)) \/ Stop \/ (\E x \in {"event", "calendar2"} : UserWrite(x))
Spec == Init /\ [][Next]_vars

\* what the walk reaches: collections listed below the home sets with their types
WalkReaches(kind) ==
    /\ "principal" \in exists
    /\ \/ kind = "calendar" /\ "calhome" \in exists /\ "calendar" \in exists /\ types["calendar"] = "calendar"
       \/ kind = "addressbook" /\ "abhome" \in exists /\ "addressbook" \in exists /\ types["addressbook"] = "addressbook"

ReachesAfterDefaults ==
    (running /\ everDefaults) => WalkReaches("calendar") /\ WalkReaches("addressbook")

StartPreserves ==
    [][/\ exists \subseteq exists'
       /\ \A t \in exists : types'[t] = types[t]
       /\ user \subseteq user']_vars

Bound == TLCGet("level") <= 9
=============================================================================
