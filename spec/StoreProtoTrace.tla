-------------------------- MODULE StoreProtoTrace --------------------------
(***************************************************************************)
(* Conformance of the real stores with the implementation-shaped model:     *)
(* the sequence of essential file-system gates recorded for one store       *)
(* operation (harness/fsmon.py, crashdriver.py) must be a behaviour of      *)
(* StoreProto in which the unlogged steps (reads) are taken silently.       *)
(* A rejection is MODEL DRIFT (a NOTE), never a violation (DESIGN 2.1).     *)
(***************************************************************************)
EXTENDS Naturals, Sequences, FiniteSets, TLC, Json, IOUtils, TLCExt

CONSTANT Kind
File == JsonDeserialize(IOEnv.TRACE_FILE)
Seqs == File.seqs

Proc == {"A"}
UidOf == [c \in {1, 2, 3, 4, 99} |-> CASE c = 1 -> 7 [] c = 2 -> 7 [] c = 3 -> 8 [] OTHER -> 0]
Init0 == [n \in {"a"} |-> 1]
OpFor(cls) ==
    CASE cls = "create"  -> [t |-> "put", n |-> "b", b |-> 3, cond |-> 0]
      [] cls = "replace" -> [t |-> "put", n |-> "a", b |-> 2, cond |-> 0]
      [] cls = "noop"    -> [t |-> "put", n |-> "a", b |-> 1, cond |-> 0]
      [] cls = "delete"  -> [t |-> "del", n |-> "a", b |-> 0, cond |-> 0]
      [] OTHER           -> [t |-> "cfg", n |-> "cfg", b |-> 4, cond |-> 0]
Classes == {"create", "replace", "noop", "delete", "cfg"}
ProgSet == {[p \in Proc |-> <<OpFor(c)>>] : c \in Classes}

VARIABLES objs, ref, refLock, index, indexLock, work, tmp, pc, loc, Prog, opi, results
SP == INSTANCE StoreProto
VARIABLES tid, l
tvars == <<objs, ref, refLock, index, indexLock, work, tmp, pc, loc, Prog, opi, results, tid, l>>

Gates == Seqs[tid].gates
Is(g)  == l <= Len(Gates) /\ Gates[l] = g
Adv(n) == l' = l + n /\ UNCHANGED tid
New(o) == o \notin objs

TraceInit ==
    /\ SP!Init
    /\ tid \in {i \in DOMAIN Seqs : Seqs[i].kind = Kind}
    /\ Prog = [p \in Proc |-> <<OpFor(Seqs[tid].cls)>>]
    /\ l = 1
    /\ TLCSet(1, {})

p0 == "A"
Silent ==
    /\ \/ SP!Start(p0) \/ SP!Scan(p0) \/ SP!Etag(p0) \/ SP!ReadFile(p0) \/ SP!ReadIndex(p0)
       \/ SP!ReadTree(p0) \/ SP!ReadHead(p0) \/ SP!CheckRef(p0) \/ SP!WriteFile1(p0) \/ SP!CleanLock(p0)
       \/ (SP!AddBlob(p0) /\ ~New(SP!BlobObj(SP!Op(p0).b)))
       \/ (SP!AddTree(p0) /\ ~New(SP!TreeObj(loc[p0].idx)))
       \/ (SP!AddCommit(p0) /\ ~New(SP!Commit(loc[p0].tree, loc[p0].parent)))
       \/ (SP!AddPack(p0) /\ objs' = objs)
    /\ UNCHANGED <<Prog, tid, l>>

Logged ==
    /\ UNCHANGED Prog
    /\ \/ Is("LockIndex")  /\ SP!LockIndex(p0)  /\ Adv(1)
       \/ Is("WriteFile")  /\ SP!WriteFile0(p0) /\ Adv(1)
       \/ Is("Remove")     /\ (SP!RemoveWork(p0) \/ SP!RemoveVdir(p0)) /\ Adv(1)
       \/ Is("AddObj")     /\ SP!AddBlob(p0)   /\ New(SP!BlobObj(SP!Op(p0).b)) /\ Adv(1)
       \/ Is("AddObj")     /\ SP!AddTree(p0)   /\ New(SP!TreeObj(loc[p0].idx)) /\ Adv(1)
       \/ Is("AddObj")     /\ SP!AddCommit(p0) /\ New(SP!Commit(loc[p0].tree, loc[p0].parent)) /\ Adv(1)
       \/ (Is("AddObj") /\ l + 1 <= Len(Gates) /\ Gates[l + 1] = "AddObj"
           /\ SP!AddPack(p0) /\ objs' # objs /\ Adv(2))     \* pack + index file
       \/ Is("LockRef")    /\ SP!LockRef(p0)   /\ Adv(1)
       \/ Is("MoveRef")    /\ SP!MoveRef(p0)   /\ Adv(1)
       \/ Is("WriteIndex") /\ SP!WriteIndex(p0) /\ Adv(1)
       \/ Is("WriteTmp")   /\ SP!WriteTmp(p0)  /\ Adv(1)
       \/ Is("Rename")     /\ SP!Rename(p0)    /\ Adv(1)

Accept ==
    /\ l = Len(Gates) + 1 /\ SP!AllDone
    /\ TLCSet(1, TLCGet(1) \cup {Seqs[tid].id})
    /\ l' = l + 1
    /\ UNCHANGED <<objs, ref, refLock, index, indexLock, work, tmp, pc, loc, Prog, opi, results, tid>>

TraceNext == Silent \/ Logged \/ Accept
TraceSpec == TraceInit /\ [][TraceNext]_tvars
Done == JsonSerialize(IOEnv.RESULT_FILE, [accepted |-> TLCGet(1)])
=============================================================================
