------------------------------ MODULE PathMap ------------------------------
(***************************************************************************)
(* C13: request target -> file-system location.                             *)
(*                                                                          *)
(* A request target is a sequence of segments                               *)
(*    "N1" "N2"  names of existing directories / collections on the way     *)
(*    "F"        a fresh name                                               *)
(*    "."  ".."  dot segments                                               *)
(*    ""         empty segment (doubled slash)                              *)
(*    "ABS"      the absolute file-system path of a directory outside the   *)
(*               data root (spliced in as several segments)                 *)
(* rendered with `lead' leading slashes and an encoding (plain, percent-    *)
(* encoded dots, encoded slashes inside one segment).                       *)
(*                                                                          *)
(* Level A (the property):                                                  *)
(*    Norm(s)   dot-segment removal, clamped at the root (RFC 3986 5.2.4)   *)
(*    every file-system location a request may touch is Root (+) a prefix   *)
(*    or extension of Norm(s); the answer is the one for Norm(s), or a      *)
(*    refusal without effect.                                               *)
(* Level B (what the code does, for drift / prediction):                    *)
(*    lookup uses posixpath.normpath (keeps exactly two leading slashes),   *)
(*    collection creation used the raw path (until fix F-C13-1).            *)
(***************************************************************************)
EXTENDS Naturals, Sequences, FiniteSets

\* "OUT": the relative path (several segments) of an existing item in a directory NEXT TO the
\* data root - what "../OUT" names if the root is not clamped
\* "DIR": an existing directory inside the root that is not a collection (the principal);
\* "SIB": the name of a file that exists in the directory the root itself lies in (the
\* deployment keeps its data directory inside another git working tree)
Seg == {"N1", "N2", "F", ".", "..", "", "ABS", "OUT", "DIR", "SIB"}

RECURSIVE NormAcc(_, _)
NormAcc(s, acc) ==
    IF s = <<>> THEN acc
    ELSE LET h == Head(s) IN
         IF h \in {".", ""} THEN NormAcc(Tail(s), acc)
         ELSE IF h = ".." THEN NormAcc(Tail(s), IF acc = <<>> THEN <<>> ELSE SubSeq(acc, 1, Len(acc) - 1))
         ELSE NormAcc(Tail(s), Append(acc, h))
\* the normalised target: never above the root
Norm(s) == NormAcc(s, <<>>)

\* does a naive join of the raw segments below the root leave the root at some point?
RECURSIVE DepthOK(_, _)
DepthOK(s, d) ==
    IF s = <<>> THEN TRUE
    ELSE LET h == Head(s) IN
         IF h \in {".", ""} THEN DepthOK(Tail(s), d)
         ELSE IF h = ".." THEN (d > 0 /\ DepthOK(Tail(s), d - 1))
         ELSE DepthOK(Tail(s), d + 1)
RawEscapes(s) == ~DepthOK(s, 0)

\* an absolute outside path is only dangerous if some layer drops the root in front of it:
\* posixpath.normpath keeps exactly two leading slashes (POSIX), os.path.join restarts at an
\* absolute component
Dangerous(lead, s) == RawEscapes(s) \/ (s # <<>> /\ "ABS" \in {s[i] : i \in DOMAIN s})

\* the property, on an observation o of one executed request:
\*   o.outside_events  file-system events outside the data root caused by the request
\*   o.outside_changed the surroundings of the root differ afterwards
\*   o.refused         the answer was a refusal (4xx / 5xx)
\*   o.effect, o.cls   changes inside the root and response class
\*   o.neffect, o.ncls the same for the request on the normalised path in a twin world
Safe(o) == o.outside_events = 0 /\ ~o.outside_changed /\ ~o.root_removed
AsNormalised(o) == (o.refused /\ o.effect = <<>>) \/ (o.cls = o.ncls /\ o.effect = o.neffect)
=============================================================================
