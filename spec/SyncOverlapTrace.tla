-------------------------- MODULE SyncOverlapTrace --------------------------
(***************************************************************************)
(* C07 when a write overlaps the report: the multistatus must be an atomic  *)
(* snapshot - change list and returned token belong to one state of the     *)
(* collection (the one before or the one after the overlapping write), so   *)
(* that applying the report to a replica of the old state yields the state  *)
(* the returned token denotes.  Uses Dav!SyncChanged / SyncRemoved.         *)
(***************************************************************************)
EXTENDS Naturals, Sequences, FiniteSets, TLC, Json, IOUtils, TLCExt

File == JsonDeserialize(IOEnv.TRACE_FILE)
BValid(b) == TRUE
BUid(b) == ""
BKind(b) == "ics"
PropOK(k, p) == TRUE
DefaultKind(c) == ""
Coll == {}
Name == {}
Body == {}
PropName == {}
Value == {}
INSTANCE Dav

Matches(r, S, t) ==
    /\ r.got.token = t
    /\ DOMAIN r.got.changed = SyncChanged(r.old, S)
    /\ \A n \in DOMAIN r.got.changed : r.got.changed[n] = S[n]
    /\ Range(r.got.removed) = SyncRemoved(r.old, S)

Judge(r, i) ==
    IF r.stuck THEN {}
    ELSE IF ~r.got.ok THEN {[i |-> i, w |-> "report-failed-under-overlap", k |-> "note"]}
    ELSE IF Matches(r, r.s0, r.t0) \/ Matches(r, r.s1, r.t1) THEN {}
    ELSE {[i |-> i, k |-> "viol",
           w |-> IF r.got.token = r.t1 /\ DOMAIN r.got.changed = SyncChanged(r.old, r.s0)
                   THEN "token-of-the-new-state-with-the-change-list-of-the-old-state"
                 ELSE IF r.got.token = r.t0 THEN "token-of-the-old-state-with-a-different-change-list"
                 ELSE "report-matches-neither-state"]}

VARIABLES idx, done
vars == <<idx, done>>
Init == idx \in DOMAIN File.recs /\ done = FALSE /\ TLCSet(1, {})
Next == /\ ~done /\ TLCSet(1, TLCGet(1) \cup Judge(File.recs[idx], idx)) /\ done' = TRUE /\ UNCHANGED idx
Spec == Init /\ [][Next]_vars
Done == JsonSerialize(IOEnv.RESULT_FILE, [results |-> TLCGet(1)])
=============================================================================
