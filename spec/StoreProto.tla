----------------------------- MODULE StoreProto -----------------------------
(***************************************************************************)
(* Implementation-shaped specification (level B, DESIGN 2.1) of the write   *)
(* protocols of the three store kinds, one action per file-system step      *)
(* ("gate") of the real code as recorded by harness/fsmon.py (DESIGN        *)
(* appendix A):                                                             *)
(*                                                                          *)
(*  tree-git  put : Scan Etag | LockIndex ReadIndex WriteFile(2 halves)     *)
(*                  AddBlob AddTree ReadHead AddCommit LockRef CheckRef      *)
(*                  MoveRef WriteIndex CleanLock                            *)
(*            del : ReadFile | LockIndex ReadIndex Remove AddTree ReadHead  *)
(*                  AddCommit LockRef CheckRef MoveRef WriteIndex           *)
(*  bare-git  put : Scan Etag ReadTree | AddPack ReadHead AddCommit LockRef *)
(*                  CheckRef MoveRef                                        *)
(*            del : ReadTree | AddPack ReadHead AddCommit LockRef CheckRef  *)
(*                  MoveRef                                                 *)
(*  vdir      put : Scan Etag | WriteTmp Rename      del : Etag | Remove    *)
(*            set-property: WriteTmp Rename (of the metadata file)          *)
(*  git       set-property (versioned .xandikos) = tree/bare put of the     *)
(*            reserved name CfgName                                         *)
(*                                                                          *)
(* Objects are their own content addresses: blob = content, tree = the      *)
(* member map, commit = <<tree, parent>>.  The disk survives a crash, the   *)
(* process state (pc, loc) does not; a file open for writing may be Torn.   *)
(*                                                                          *)
(* Serves C04 (every reachable disk state is a crash image: Visible(disk)   *)
(* must be the old or the new state and must open) and C05 (results and     *)
(* final state of overlapping writers must be linearizable), C09 (HEAD =    *)
(* index = work tree when no writer is active).                             *)
(***************************************************************************)
EXTENDS Naturals, Sequences, FiniteSets, TLC

CONSTANTS
    Kind,      \* "tree" | "bare" | "vdir"
    Proc,      \* writer processes / threads
    ProgSet,   \* set of programs: Proc -> sequence of operations [t, n, b, cond]
               \*   t \in {"put","del","cfg"}; cond: 0 = unconditional, else required content id
    Init0,     \* initial visible contents: name -> content
    UidOf      \* content -> uid (0 = none)

None  == 0             \* no content
NoProc == "nobody"     \* lock not held
NoCommit == <<"nocommit">>
Torn  == 99          \* content of a file that was being written when the process died
CfgName == "cfg"     \* reserved member name standing for the .xandikos file

VARIABLES
    objs,       \* objects present in the object store
    ref,        \* head commit: None or <<tree, parent>>
    refLock,    \* None or owner
    index,      \* tree-git: name -> content (index entries)
    indexLock,  \* None or owner
    work,       \* tree-git work tree / vdir directory: name -> content
    tmp,        \* vdir: names with a pending .tmp file
    pc, loc,    \* process control state and locals
    Prog,       \* the program being run (chosen from ProgSet initially)
    opi,        \* Proc -> index of the current operation in Prog
    results     \* Proc -> sequence of results of completed operations
vars == <<objs, ref, refLock, index, indexLock, work, tmp, pc, loc, Prog, opi, results>>

EmptyFn == <<>>
Upd(f, k, v) == [x \in DOMAIN f \cup {k} |-> IF x = k THEN v ELSE f[x]]
Drop(f, k)   == [x \in DOMAIN f \ {k} |-> f[x]]
Get(f, k)    == IF k \in DOMAIN f THEN f[k] ELSE None

Commit(t, parent) == <<"c", t, parent>>
TreeOf(c) == IF c = NoCommit THEN EmptyFn ELSE c[2]
BlobObj(b) == <<"b", b>>
TreeObj(t) == <<"t", t>>

Op(p)   == Prog[p][opi[p]]
HasOp(p) == opi[p] <= Len(Prog[p])

\* What a freshly opened store serves (None-valued = unreadable marker)
Visible ==
    CASE Kind = "tree" -> index
      [] Kind = "bare" -> TreeOf(ref)
      [] OTHER         -> work

\* can every listed member be read completely?
Readable ==
    CASE Kind = "tree" -> \A n \in DOMAIN index : BlobObj(index[n]) \in objs
      [] Kind = "bare" -> /\ (ref # NoCommit => ref \in objs /\ TreeObj(ref[2]) \in objs)
                          /\ \A n \in DOMAIN TreeOf(ref) : BlobObj(TreeOf(ref)[n]) \in objs
      [] OTHER         -> \A n \in DOMAIN work : work[n] # Torn

----------------------------------------------------------------------------
InitTree == Init0
InitCommit == IF Init0 = EmptyFn THEN NoCommit ELSE Commit(Init0, NoCommit)

Init ==
    /\ objs = IF Kind = "vdir" THEN {}
              ELSE {BlobObj(Init0[n]) : n \in DOMAIN Init0}
                   \cup (IF Init0 = EmptyFn THEN {} ELSE {TreeObj(Init0), InitCommit})
    /\ ref = IF Kind = "vdir" THEN NoCommit ELSE InitCommit
    /\ refLock = NoProc
    /\ index = IF Kind = "tree" THEN Init0 ELSE EmptyFn
    /\ indexLock = NoProc
    /\ work = IF Kind = "bare" THEN EmptyFn ELSE Init0
    /\ tmp = {}
    /\ pc = [p \in Proc |-> "start"]
    /\ loc = [p \in Proc |-> [idx |-> EmptyFn, tree |-> EmptyFn, parent |-> NoCommit, commit |-> NoCommit, pre |-> EmptyFn]]
    /\ Prog \in ProgSet
    /\ opi = [p \in Proc |-> 1]
    /\ results = [p \in Proc |-> <<>>]

Goto(p, l) == pc' = [pc EXCEPT ![p] = l]
SetLoc(p, f, v) == loc' = [loc EXCEPT ![p][f] = v]
Finish(p, r) ==
    /\ results' = [results EXCEPT ![p] = Append(@, r)]
    /\ opi' = [opi EXCEPT ![p] = @ + 1]
    /\ Goto(p, "start")

\* UID clash as the code sees it in the state it reads (members other than n holding the UID)
Clash(members, n, b) ==
    UidOf[b] # 0 /\ \E m \in DOMAIN members \ {n, CfgName} : UidOf[members[m]] = UidOf[b]

----------------------------------------------------------------------------
(* Steps common to the kinds: the unlocked check phase                       *)

\* remember the visible state when the operation starts (for C04's old/new judgement)
Start(p) ==
    /\ pc[p] = "start" /\ HasOp(p)
    /\ SetLoc(p, "pre", Visible)
    /\ Goto(p, CASE Op(p).t = "del" /\ Kind = "tree" -> "readfile"
                 [] Op(p).t = "del" /\ Kind = "bare" -> "readtree"
                 [] Op(p).t = "del"                  -> "etag"
                 [] Op(p).t = "cfg" /\ Kind = "vdir" -> "wtmp"
                 [] Op(p).t = "cfg" /\ Kind = "tree" -> "lockindex"
                 [] Op(p).t = "cfg"                  -> "readtree"
                 [] OTHER                            -> "scan")
    /\ UNCHANGED <<objs, ref, refLock, index, indexLock, work, tmp, opi, results>>

\* put: UID scan over the current members (reads index / tree / directory)
Scan(p) ==
    /\ pc[p] = "scan"
    /\ IF Clash(Visible, Op(p).n, Op(p).b)
         THEN Finish(p, "DuplicateUid") /\ UNCHANGED loc
         ELSE Goto(p, "etag") /\ UNCHANGED <<opi, results, loc>>
    /\ UNCHANGED <<objs, ref, refLock, index, indexLock, work, tmp>>

\* put / vdir del: compare the current etag with the requested one
Etag(p) ==
    /\ pc[p] = "etag"
    /\ LET cur == Get(Visible, Op(p).n) IN
       IF Op(p).t = "del" /\ Op(p).cond # 0 /\ cur = None
         THEN Finish(p, "NoSuchItem") /\ UNCHANGED loc
       ELSE IF Op(p).cond # 0 /\ cur # Op(p).cond
         THEN Finish(p, "InvalidETag") /\ UNCHANGED loc
       ELSE /\ Goto(p, CASE Op(p).t = "del" -> "remove"
                         [] Kind = "tree" -> "lockindex"
                         [] Kind = "bare" -> "readtree"
                         [] OTHER -> "wtmp")
            /\ UNCHANGED <<opi, results, loc>>
    /\ UNCHANGED <<objs, ref, refLock, index, indexLock, work, tmp>>

----------------------------------------------------------------------------
(* tree-git                                                                  *)

\* delete_one reads the *work-tree file* for existence and etag
ReadFile(p) ==
    /\ pc[p] = "readfile"
    /\ LET cur == Get(work, Op(p).n) IN
       IF cur = None THEN Finish(p, "NoSuchItem") /\ UNCHANGED loc
       ELSE IF Op(p).cond # 0 /\ cur # Op(p).cond THEN Finish(p, "InvalidETag") /\ UNCHANGED loc
       ELSE Goto(p, "lockindex") /\ UNCHANGED <<opi, results, loc>>
    /\ UNCHANGED <<objs, ref, refLock, index, indexLock, work, tmp>>

LockIndex(p) ==
    /\ pc[p] = "lockindex"
    /\ IF indexLock = NoProc
         THEN indexLock' = p /\ Goto(p, "readindex") /\ UNCHANGED <<opi, results>>
         ELSE Finish(p, "Locked") /\ UNCHANGED indexLock
    /\ UNCHANGED <<objs, ref, refLock, index, work, tmp, loc>>

ReadIndex(p) ==
    /\ pc[p] = "readindex"
    /\ SetLoc(p, "idx", index)
    /\ Goto(p, IF Op(p).t = "del" THEN "remove" ELSE "wfile0")
    /\ UNCHANGED <<objs, ref, refLock, index, indexLock, work, tmp, opi, results>>

Target(p) == IF Op(p).t = "cfg" THEN CfgName ELSE Op(p).n

\* open(path, "wb") truncates; the data arrives when the file is closed
WriteFile0(p) ==
    /\ pc[p] = "wfile0"
    /\ work' = Upd(work, Target(p), Torn)
    /\ Goto(p, "wfile1")
    /\ UNCHANGED <<objs, ref, refLock, index, indexLock, tmp, loc, opi, results>>
WriteFile1(p) ==
    /\ pc[p] = "wfile1"
    /\ work' = Upd(work, Target(p), Op(p).b)
    /\ IF Get(loc[p].idx, Target(p)) = Op(p).b
         THEN Goto(p, "writeindex")        \* same blob as the index entry: no commit
         ELSE Goto(p, "addblob")
    /\ UNCHANGED <<objs, ref, refLock, index, indexLock, tmp, loc, opi, results>>

AddBlob(p) ==
    /\ pc[p] = "addblob"
    /\ objs' = objs \cup {BlobObj(Op(p).b)}
    /\ SetLoc(p, "idx", Upd(loc[p].idx, Target(p), Op(p).b))
    /\ Goto(p, "addtree")
    /\ UNCHANGED <<ref, refLock, index, indexLock, work, tmp, opi, results>>

RemoveWork(p) ==
    /\ pc[p] = "remove" /\ Kind = "tree"
    /\ work' = Drop(work, Op(p).n)
    /\ IF Op(p).n \in DOMAIN loc[p].idx
         THEN /\ SetLoc(p, "idx", Drop(loc[p].idx, Op(p).n))
              /\ Goto(p, "addtree") /\ UNCHANGED <<opi, results, indexLock>>
         ELSE \* KeyError inside the with block: the lock file is removed again
              /\ indexLock' = NoProc /\ Finish(p, "Error") /\ UNCHANGED loc
    /\ UNCHANGED <<objs, ref, refLock, index, tmp>>

AddTree(p) ==
    /\ pc[p] = "addtree"
    /\ objs' = objs \cup {TreeObj(loc[p].idx)}
    /\ SetLoc(p, "tree", loc[p].idx)
    /\ Goto(p, "readhead")
    /\ UNCHANGED <<ref, refLock, index, indexLock, work, tmp, opi, results>>

----------------------------------------------------------------------------
(* bare-git                                                                  *)

ReadTree(p) ==
    /\ pc[p] = "readtree"
    /\ LET t == TreeOf(ref)  n == Target(p) IN
       IF Op(p).t = "del" /\ n \notin DOMAIN t
         THEN Finish(p, "NoSuchItem") /\ UNCHANGED loc
       ELSE IF Op(p).t = "del" /\ Op(p).cond # 0 /\ t[n] # Op(p).cond
         THEN Finish(p, "InvalidETag") /\ UNCHANGED loc
       ELSE /\ SetLoc(p, "idx", t)
            /\ Goto(p, "addpack") /\ UNCHANGED <<opi, results>>
    /\ UNCHANGED <<objs, ref, refLock, index, indexLock, work, tmp>>

AddPack(p) ==
    /\ pc[p] = "addpack"
    /\ LET n == Target(p)
           t2 == IF Op(p).t = "del" THEN Drop(loc[p].idx, n) ELSE Upd(loc[p].idx, n, Op(p).b) IN
       /\ objs' = objs \cup {TreeObj(t2)} \cup (IF Op(p).t = "del" THEN {} ELSE {BlobObj(Op(p).b)})
       /\ IF t2 = loc[p].idx /\ Op(p).t # "del"
            THEN Finish(p, "ok") /\ UNCHANGED loc           \* tree unchanged: no commit
            ELSE SetLoc(p, "tree", t2) /\ Goto(p, "readhead") /\ UNCHANGED <<opi, results>>
    /\ UNCHANGED <<ref, refLock, index, indexLock, work, tmp>>

----------------------------------------------------------------------------
(* commit (both git kinds): dulwich do_commit                                *)

ReadHead(p) ==
    /\ pc[p] = "readhead"
    /\ SetLoc(p, "parent", ref)
    /\ Goto(p, "addcommit")
    /\ UNCHANGED <<objs, ref, refLock, index, indexLock, work, tmp, opi, results>>

AddCommit(p) ==
    /\ pc[p] = "addcommit"
    /\ objs' = objs \cup {Commit(loc[p].tree, loc[p].parent)}
    /\ SetLoc(p, "commit", Commit(loc[p].tree, loc[p].parent))
    /\ Goto(p, "lockref")
    /\ UNCHANGED <<ref, refLock, index, indexLock, work, tmp, opi, results>>

\* failure inside the commit: the exception leaves locked_index through abort()
FailCommit(p) ==
    /\ indexLock' = IF indexLock = p THEN NoProc ELSE indexLock
    /\ Finish(p, "Error")

LockRef(p) ==
    /\ pc[p] = "lockref"
    /\ IF refLock = NoProc
         THEN /\ refLock' = p /\ Goto(p, "checkref")
              /\ UNCHANGED <<opi, results, indexLock>>
         ELSE FailCommit(p) /\ UNCHANGED refLock
    /\ UNCHANGED <<objs, ref, index, work, tmp, loc>>

CheckRef(p) ==
    /\ pc[p] = "checkref"
    /\ IF ref = loc[p].parent
         THEN Goto(p, "moveref") /\ UNCHANGED <<opi, results, indexLock, refLock>>
         ELSE refLock' = NoProc /\ FailCommit(p)
    /\ UNCHANGED <<objs, ref, index, work, tmp, loc>>

MoveRef(p) ==
    /\ pc[p] = "moveref"
    /\ ref' = loc[p].commit
    /\ refLock' = NoProc
    /\ IF Kind = "tree"
         THEN Goto(p, "writeindex") /\ UNCHANGED <<opi, results>>
         ELSE Finish(p, "ok")
    /\ UNCHANGED <<objs, index, indexLock, work, tmp, loc>>

\* locked_index.__exit__: the lock file (holding the new index) is renamed over the index ...
WriteIndex(p) ==
    /\ pc[p] = "writeindex"
    /\ IF indexLock = p
         THEN /\ index' = loc[p].idx
              /\ indexLock' = NoProc
              /\ Goto(p, "cleanlock") /\ UNCHANGED <<opi, results>>
         ELSE \* its lock file is gone (see CleanLock): the rename fails, the writer ends with an
              \* exception - after it has changed the work tree and moved the ref
              /\ Finish(p, "Error") /\ UNCHANGED <<index, indexLock>>
    /\ UNCHANGED <<objs, ref, refLock, work, tmp, loc>>

\* ... and dulwich's GitFile.close() then still removes <index>.lock BY NAME (its abort()):
\* whoever has created that file in the meantime loses it (finding F-C05-15)
CleanLock(p) ==
    /\ pc[p] = "cleanlock"
    /\ indexLock' = NoProc
    /\ Finish(p, "ok")
    /\ UNCHANGED <<objs, ref, refLock, index, work, tmp, loc>>

----------------------------------------------------------------------------
(* vdir                                                                      *)

WriteTmp(p) ==
    /\ pc[p] = "wtmp"
    /\ tmp' = tmp \cup {Op(p).n}
    /\ Goto(p, "rename")
    /\ UNCHANGED <<objs, ref, refLock, index, indexLock, work, loc, opi, results>>
Rename(p) ==
    /\ pc[p] = "rename"
    /\ IF Op(p).n \in tmp
         THEN /\ work' = Upd(work, Op(p).n, Op(p).b) /\ tmp' = tmp \ {Op(p).n}
              /\ Finish(p, "ok")
         ELSE \* another writer's rename consumed the shared tmp name
              /\ Finish(p, "Error") /\ UNCHANGED <<work, tmp>>
    /\ UNCHANGED <<objs, ref, refLock, index, indexLock, loc>>
RemoveVdir(p) ==
    /\ pc[p] = "remove" /\ Kind = "vdir"
    /\ IF Op(p).n \in DOMAIN work
         THEN work' = Drop(work, Op(p).n) /\ Finish(p, "ok")
         ELSE Finish(p, "NoSuchItem") /\ UNCHANGED work
    /\ UNCHANGED <<objs, ref, refLock, index, indexLock, tmp, loc>>
\* vdir metadata (.xandikos, displayname, color) is written like a member: to a
\* temporary file that is then renamed over the old one (since fix F-C04-1; before
\* that it was rewritten in place, and TLC showed Opens violated).

----------------------------------------------------------------------------
Step(p) ==
    \/ Start(p) \/ Scan(p) \/ Etag(p)
    \/ ReadFile(p) \/ LockIndex(p) \/ ReadIndex(p) \/ WriteFile0(p) \/ WriteFile1(p)
    \/ AddBlob(p) \/ RemoveWork(p) \/ AddTree(p)
    \/ ReadTree(p) \/ AddPack(p)
    \/ ReadHead(p) \/ AddCommit(p) \/ LockRef(p) \/ CheckRef(p) \/ MoveRef(p) \/ WriteIndex(p) \/ CleanLock(p)
    \/ WriteTmp(p) \/ Rename(p) \/ RemoveVdir(p)

Next == (\E p \in Proc : Step(p)) /\ UNCHANGED Prog
Spec == Init /\ [][Next]_vars

AllDone == \A p \in Proc : ~HasOp(p)
Idle    == \A p \in Proc : pc[p] = "start"

----------------------------------------------------------------------------
(* C04: every reachable disk state is a possible crash image.                *)
(* (single writer configurations)                                           *)

\* the image opens and every listed member reads back completely; git: no
\* reference to a missing object
Opens == Readable

\* the state a sequential execution of the current operation would produce
PostOf(p) ==
    LET pre == loc[p].pre  o == Op(p)  n == Target(p) IN
    IF o.t = "del" THEN Drop(pre, n) ELSE Upd(pre, n, o.b)

\* old or new for the operation in flight, nothing else touched
CrashAtomic ==
    \A p \in Proc :
        (pc[p] # "start" /\ HasOp(p)) => Visible \in {loc[p].pre, PostOf(p)}

\* C09 (B level): when nobody is writing, HEAD tree = index = work tree
Coherent ==
    (Idle /\ Kind = "tree" /\ \A p \in Proc : \A k \in DOMAIN results[p] : results[p][k] # "Error") =>
        /\ TreeOf(ref) = index
        /\ work = index

----------------------------------------------------------------------------
(* C05: linearizability of the completed operations (terminal states).       *)

\* The property itself is Lin.tla (one definition for the model and for the
\* judgement of real executions); a set-property operation is a put of CfgName.
LinI == INSTANCE Lin WITH UidOf <- LAMBDA b : UidOf[b]

OpIds == UNION {{<<p, k>> : k \in 1..Len(Prog[p])} : p \in Proc}
Counted == {id \in OpIds : results[id[1]][id[2]] \notin {"Locked", "Error"}}
OpsFn == [id \in OpIds |->
            LET o == Prog[id[1]][id[2]] IN
            IF o.t = "cfg" THEN [t |-> "put", n |-> CfgName, b |-> o.b, cond |-> 0] ELSE o]
ResFn == [id \in OpIds |-> results[id[1]][id[2]]]

Linearizable ==
    AllDone => LinI!ExplainsFrom(Init0, Counted, OpsFn, ResFn,
                                 LAMBDA x, y : x[1] = y[1] /\ x[2] < y[2], Visible)

\* named clauses for diagnostics
UidUnique ==
    AllDone => \A n, m \in DOMAIN Visible \ {CfgName} :
                 (n # m /\ UidOf[Visible[n]] # 0) => UidOf[Visible[n]] # UidOf[Visible[m]]
=============================================================================
