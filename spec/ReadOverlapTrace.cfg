SPECIFICATION Spec
POSTCONDITION Done
CHECK_DEADLOCK FALSE
