------------------------------ MODULE HrefTrace ------------------------------
(* C16: judges recorded href round trips and listings of the real server.    *)
EXTENDS Naturals, Sequences, FiniteSets, TLC, Json, IOUtils, TLCExt
INSTANCE Href

File == JsonDeserialize(IOEnv.TRACE_FILE)
CONSTANT EnabledDevs

Has(n, c) == \E i \in DOMAIN n : n[i] = c
Sig(n) ==
    (IF EscapeLike(n) THEN "escape-like" ELSE "")
    \o (IF Has(n, " ") THEN "[space]" ELSE "") \o (IF Has(n, "%") THEN "[percent]" ELSE "")
    \o (IF Has(n, "#") THEN "[hash]" ELSE "") \o (IF Has(n, "?") THEN "[question]" ELSE "")
    \o (IF Has(n, ";") THEN "[semicolon]" ELSE "") \o (IF Has(n, "+") THEN "[plus]" ELSE "")
    \o (IF Has(n, "e'") THEN "[non-ascii]" ELSE "") \o (IF Has(n, "ca") THEN "[combining]" ELSE "")
    \o (IF Has(n, "mj") THEN "[latin1-pair]" ELSE "")

\* per name: r = [name, frontend, prefix, put, ctx : context -> verdict]
JudgeName(r, i) ==
    IF r.put # "ok"
      THEN LET d == "href:put:" \o r.put \o ":" \o Sig(r.name) \o ":" \o r.frontend IN
           {[k |-> IF d \in EnabledDevs THEN "known" ELSE "viol", t |-> "n", i |-> i, dev |-> d]}
    ELSE {[k |-> IF d \in EnabledDevs THEN "known" ELSE "viol", t |-> "n", i |-> i, dev |-> d] :
            d \in {"href:" \o c \o ":" \o r.ctx[c] \o ":" \o Sig(r.name) \o ":" \o r.frontend
                     : c \in {x \in DOMAIN r.ctx : r.ctx[x] # "ok"}}}

\* per configuration: r = [frontend, prefix, checks : check -> verdict]
JudgeCfg(r, i) ==
    {[k |-> IF d \in EnabledDevs THEN "known" ELSE "viol", t |-> "c", i |-> i, dev |-> d] :
        d \in {"href:" \o c \o ":" \o r.checks[c] \o ":" \o r.frontend \o ":prefix" \o r.prefix
                 : c \in {x \in DOMAIN r.checks : r.checks[x] # "ok"}}}

VARIABLES which, idx, done
vars == <<which, idx, done>>
Init == /\ \/ which = "n" /\ idx \in DOMAIN File.names
           \/ which = "c" /\ idx \in DOMAIN File.cfgs
        /\ done = FALSE /\ TLCSet(1, {})
Next == /\ ~done
        /\ TLCSet(1, TLCGet(1) \cup (IF which = "n" THEN JudgeName(File.names[idx], idx)
                                                  ELSE JudgeCfg(File.cfgs[idx], idx)))
        /\ done' = TRUE /\ UNCHANGED <<which, idx>>
Spec == Init /\ [][Next]_vars
Done == JsonSerialize(IOEnv.RESULT_FILE, [results |-> TLCGet(1)])
=============================================================================
