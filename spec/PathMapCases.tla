---------------------------- MODULE PathMapCases ----------------------------
(* All request targets of C13 up to MaxLen segments, with their normal form. *)
EXTENDS Naturals, Sequences, FiniteSets, TLC, Json, IOUtils, TLCExt, SequencesExt
INSTANCE PathMap
CONSTANT MaxLen

Targets == UNION {[1..k -> Seg] : k \in 1..MaxLen}
\* at most one ABS splice, and it only makes sense at the front (after the leading slashes)
Sensible(s) == /\ \A i \in DOMAIN s : s[i] = "ABS" => i = 1
               /\ \A i \in DOMAIN s : s[i] = "SIB" => i = Len(s)          \* a file name comes last
Leads == {1, 2, 3, 4}
Encs == {"plain", "pctdot", "pctslash", "mixedcase", "allpctslash", "dblpctdot", "dblpctslash", "dblboth",
         "fwdot", "fwboth", "leaderdot"}
\* doubly encoded: after the ONE decoding step a server owes a request target the dots and
\* slashes are still escaped, i.e. the target names one (odd) literal member of the root -
\* only the safety clauses apply, there is no dot-segment normal form to compare with
\* look-alikes: dots / slashes written with Unicode compatibility characters (fullwidth full
\* stop U+FF0E, fullwidth solidus U+FF0F, one / two dot leader U+2024 U+2025) are ordinary
\* characters of a literal name - likewise only the safety clauses apply
Dbl == {"dblpctdot", "dblpctslash", "dblboth", "fwdot", "fwboth", "leaderdot"}
Cases == {[segs |-> s, lead |-> l, enc |-> e, norm |-> IF e \in Dbl THEN <<"LITERAL">> ELSE Norm(s), rawescapes |-> RawEscapes(s)] :
            s \in {t \in Targets : Sensible(t)}, l \in Leads, e \in Encs}
\* keep the table finite but not wasteful: encodings matter only with dot segments,
\* several leading slashes mostly with ABS or a dot-dot start
Keep(c) == /\ (c.enc # "plain" => \E i \in DOMAIN c.segs : c.segs[i] \in {".", ".."})
           /\ (c.lead > 1 => c.segs[1] \in {"ABS", "..", "N1"})
           /\ (c.enc \in {"pctslash", "allpctslash", "dblpctslash", "dblboth", "fwboth"} => Len(c.segs) >= 2)
\* a second family: an existing collection, then ONE last segment that spells "../../x" with
\* escaped or look-alike separators and dots (the member name a store would be handed)
TailEncs == {"pcttail", "dbltail", "fwtail", "leadertail", "mixtail"}
Ups(k) == [j \in 1..k |-> ".."]
TailCases == {[segs |-> <<"N1">> \o Ups(k) \o <<"F">>, lead |-> 1, enc |-> e, norm |-> <<"LITERAL">>,
               rawescapes |-> RawEscapes(<<"N1">> \o Ups(k) \o <<"F">>)] : k \in 1..3, e \in TailEncs}
Table == {c \in Cases : Keep(c)} \cup TailCases

VARIABLE x
Init == x = 0
Next == UNCHANGED x
Spec == Init /\ [][Next]_x
Write == TLCGet("distinct") >= 0 /\ JsonSerialize(IOEnv.RESULT_FILE, [cases |-> SetToSeq(Table)])
=============================================================================
