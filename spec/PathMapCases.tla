---------------------------- MODULE PathMapCases ----------------------------
(* All request targets of C13 up to MaxLen segments, with their normal form. *)
EXTENDS Naturals, Sequences, FiniteSets, TLC, Json, IOUtils, TLCExt, SequencesExt
INSTANCE PathMap
CONSTANT MaxLen

Targets == UNION {[1..k -> Seg] : k \in 1..MaxLen}
\* at most one ABS splice, and it only makes sense at the front (after the leading slashes)
Sensible(s) == \A i \in DOMAIN s : s[i] = "ABS" => i = 1
Leads == {1, 2, 3, 4}
Encs == {"plain", "pctdot", "pctslash", "mixedcase", "allpctslash", "dblpctdot", "dblpctslash", "dblboth"}
\* doubly encoded: after the ONE decoding step a server owes a request target the dots and
\* slashes are still escaped, i.e. the target names one (odd) literal member of the root -
\* only the safety clauses apply, there is no dot-segment normal form to compare with
Dbl == {"dblpctdot", "dblpctslash", "dblboth"}
Cases == {[segs |-> s, lead |-> l, enc |-> e, norm |-> IF e \in Dbl THEN <<"LITERAL">> ELSE Norm(s), rawescapes |-> RawEscapes(s)] :
            s \in {t \in Targets : Sensible(t)}, l \in Leads, e \in Encs}
\* keep the table finite but not wasteful: encodings matter only with dot segments,
\* several leading slashes mostly with ABS or a dot-dot start
Keep(c) == /\ (c.enc # "plain" => \E i \in DOMAIN c.segs : c.segs[i] \in {".", ".."})
           /\ (c.lead > 1 => c.segs[1] \in {"ABS", "..", "N1"})
           /\ (c.enc \in {"pctslash", "allpctslash", "dblpctslash", "dblboth"} => Len(c.segs) >= 2)
Table == {c \in Cases : Keep(c)}

VARIABLE x
Init == x = 0
Next == UNCHANGED x
Spec == Init /\ [][Next]_x
Write == TLCGet("distinct") >= 0 /\ JsonSerialize(IOEnv.RESULT_FILE, [cases |-> SetToSeq(Table)])
=============================================================================
