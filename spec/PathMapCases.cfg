SPECIFICATION Spec
CONSTANT MaxLen = 2
POSTCONDITION Write
CHECK_DEADLOCK FALSE
