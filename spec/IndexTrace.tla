----------------------------- MODULE IndexTrace -----------------------------
(***************************************************************************)
(* C10: judges recorded query histories of the real store.                  *)
(*  - property (level A): every query answers exactly what a history-free   *)
(*    evaluation of the filter over the current members answers             *)
(*    (got = want, same error behaviour);                                   *)
(*  - conformance (level B): the observable state of AutoIndexManager /     *)
(*    MemoryIndex (desired counters, available keys) follows IndexMgr.tla's *)
(*    protocol step for step; a mismatch is model drift (note).             *)
(***************************************************************************)
EXTENDS Naturals, Sequences, FiniteSets, TLC, Json, IOUtils, TLCExt

File == JsonDeserialize(IOEnv.TRACE_FILE)
Traces == File.traces
CONSTANT EnabledDevs

VARIABLES tid, l, desired, avail, out
vars == <<tid, l, desired, avail, out>>

Tr == Traces[tid]
Thr == IF Tr.threshold < 0 THEN 5 ELSE Tr.threshold      \* DEFAULT_INDEXING_THRESHOLD
Range(s) == {s[i] : i \in DOMAIN s}
Count(s, k) == Cardinality({i \in DOMAIN s : s[i] = k})
Des(k) == IF k \in DOMAIN desired THEN desired[k] ELSE 0

\* IndexMgr!QueryNaive / QueryIndexed on the protocol variables
ModelStep(keys) ==
    LET ks == Range(keys)
        missing == ks \ avail
        d2 == [k \in DOMAIN desired \cup missing |-> IF k \in missing THEN Des(k) + Count(keys, k) ELSE Des(k)]
        new == {k \in missing : d2[k] > Thr}
    IN [desired |-> d2, avail |-> avail \cup new, path |-> IF missing = {} THEN "index" ELSE "naive"]

Judge(ev, i, m) ==
    (IF ev.got # ev.want \/ ev.goterr # ev.wanterr
       THEN LET dev == "index:" \o ev.fkind \o ":" \o ev.diffcls IN
            {[k |-> IF dev \in EnabledDevs THEN "known" ELSE "viol", i |-> i, w |-> "result-depends-on-query-history",
              dev |-> dev, d |-> ToJson([f |-> ev.f, got |-> ev.got, want |-> ev.want, goterr |-> ev.goterr,
                                         wanterr |-> ev.wanterr, path |-> m.path])]}
       ELSE {})
    \cup
    (IF Range(ev.avail) # m.avail \/ \E k \in DOMAIN ev.desired : ev.desired[k] # (IF k \in DOMAIN m.desired THEN m.desired[k] ELSE 0)
       THEN {[k |-> "drift", i |-> i, w |-> "index-manager-state-differs-from-IndexMgr", dev |-> "",
              d |-> ToJson([avail |-> ev.avail, model_avail |-> m.avail, desired |-> ev.desired, model_desired |-> m.desired])]}
       ELSE {})

Init == /\ tid \in DOMAIN Traces /\ l = 1 /\ desired = <<>> /\ avail = {} /\ out = {} /\ TLCSet(1, {})
Step ==
    /\ l <= Len(Tr.events)
    /\ LET ev == Tr.events[l] IN
       IF ev.op = "Query"
         THEN LET m == ModelStep(ev.keys) IN
              /\ out' = out \cup Judge(ev, l, m)
              \* re-synchronise to the observed state so that later steps are still compared
              /\ desired' = ev.desired
              /\ avail' = Range(ev.avail)
         ELSE UNCHANGED <<out, desired, avail>>
    /\ l' = l + 1 /\ UNCHANGED tid
Finish ==
    /\ l = Len(Tr.events) + 1
    /\ TLCSet(1, TLCGet(1) \cup {[id |-> Tr.id, v |-> out]})
    /\ l' = l + 1 /\ UNCHANGED <<tid, desired, avail, out>>
Spec == Init /\ [][Step \/ Finish]_vars
Done == JsonSerialize(IOEnv.RESULT_FILE, [results |-> TLCGet(1)])
=============================================================================
