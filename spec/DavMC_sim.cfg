SPECIFICATION SpecSim
CONSTANTS
  Coll = {"cal1", "ab1"}
  Name = {"a.ics", "b.ics", "c.vcf"}
  Body = {1, 2, 3, 4, 5, 6, 7}
  PropName = {"displayname", "color"}
  Value = {1, 2}
  MaxHist = 100
  MaxInstr = 3
CHECK_DEADLOCK FALSE
