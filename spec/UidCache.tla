------------------------------ MODULE UidCache ------------------------------
(***************************************************************************)
(* Implementation-shaped model (level B) of the UID bookkeeping of          *)
(* GitStore / VdirStore:  _fname_to_uid, _uid_to_fname, the incremental     *)
(* _scan_uids() (only before a write that carries a UID; files whose etag   *)
(* is unchanged are skipped; entries of vanished files are dropped) and     *)
(* _check_duplicate().  Restart = a new store object with empty maps.       *)
(*                                                                          *)
(* Level A (C06) on this model:                                             *)
(*    UidUnique          no two live members share a UID                    *)
(*    RefusalIsReal      a write is refused for its UID iff another live    *)
(*                       member currently holds that UID                    *)
(* With Fixed = TRUE (the algorithm after fix F-C06-1) TLC proves both for  *)
(* all histories in scope; with Fixed = FALSE (the original algorithm) TLC  *)
(* exhibits the spurious refusal after a UID change.                        *)
(***************************************************************************)
EXTENDS Naturals, Sequences, FiniteSets, TLC

CONSTANTS Name, Body, UidOf, Fixed     \* UidOf: Body -> uid (0 = none)

Absent == 0
VARIABLES store,   \* name -> body | Absent          (etag = body identity)
          f2u,     \* name -> <<etag, uid>>           _fname_to_uid
          u2f,     \* uid  -> name                    _uid_to_fname
          last     \* [op, n, b, refused]             history variable
vars == <<store, f2u, u2f, last>>

Live == {n \in Name : store[n] # Absent}
Drop(f, k) == [x \in DOMAIN f \ {k} |-> f[x]]
Upd(f, k, v) == [x \in DOMAIN f \cup {k} |-> IF x = k THEN v ELSE f[x]]

Init == store = [n \in Name |-> Absent] /\ f2u = <<>> /\ u2f = <<>> /\ last = [op |-> "init", n |-> "", b |-> 0, refused |-> FALSE]

\* one pass of _scan_uids over the live files, in some order; the result does not depend
\* on the order except through the stale entries the original algorithm leaves behind
RECURSIVE ScanFiles(_, _, _)
ScanFiles(todo, F, U) ==
    IF todo = {} THEN [f |-> F, u |-> U]
    ELSE LET n == CHOOSE x \in todo : TRUE
             e == store[n]
             uid == UidOf[e] IN
         IF n \in DOMAIN F /\ F[n][1] = e THEN ScanFiles(todo \ {n}, F, U)
         ELSE LET U1 == IF Fixed /\ n \in DOMAIN F /\ F[n][2] # 0 /\ F[n][2] \in DOMAIN U /\ U[F[n][2]] = n
                          THEN Drop(U, F[n][2]) ELSE U
                  U2 == IF uid # 0 THEN Upd(U1, uid, n) ELSE U1 IN
              ScanFiles(todo \ {n}, Upd(F, n, <<e, uid>>), U2)

RECURSIVE DropRemoved(_, _, _)
DropRemoved(rem, F, U) ==
    IF rem = {} THEN [f |-> F, u |-> U]
    ELSE LET n == CHOOSE x \in rem : TRUE
             uid == F[n][2] IN
         DropRemoved(rem \ {n}, Drop(F, n),
                     IF uid # 0 /\ uid \in DOMAIN U /\ (~Fixed \/ U[uid] = n) THEN Drop(U, uid) ELSE U)

Scan ==
    LET s1 == ScanFiles(Live, f2u, u2f)
        removed == DOMAIN f2u \ Live IN
    DropRemoved(removed, s1.f, s1.u)

Put(n, b) ==
    LET uid == UidOf[b]
        s == IF uid # 0 THEN Scan ELSE [f |-> f2u, u |-> u2f]
        refused == uid # 0 /\ uid \in DOMAIN s.u /\ s.u[uid] # n IN
    /\ f2u' = s.f /\ u2f' = s.u
    /\ store' = IF refused THEN store ELSE [store EXCEPT ![n] = b]
    /\ last' = [op |-> "put", n |-> n, b |-> b, refused |-> refused]

Delete(n) ==
    /\ store[n] # Absent
    /\ store' = [store EXCEPT ![n] = Absent]
    /\ last' = [op |-> "del", n |-> n, b |-> 0, refused |-> FALSE]
    /\ UNCHANGED <<f2u, u2f>>

Restart == f2u' = <<>> /\ u2f' = <<>> /\ last' = [op |-> "restart", n |-> "", b |-> 0, refused |-> FALSE] /\ UNCHANGED store

Next == (\E n \in Name, b \in Body : Put(n, b)) \/ (\E n \in Name : Delete(n)) \/ Restart
Spec == Init /\ [][Next]_vars

UidUnique == \A n, m \in Live : (n # m /\ UidOf[store[n]] # 0) => UidOf[store[n]] # UidOf[store[m]]

\* evaluated on the step just taken (history variable): was the refusal justified by the
\* state before the step (= the state now, as a refused put changes nothing)?
RefusalIsReal ==
    last.op = "put" =>
        (last.refused <=> (UidOf[last.b] # 0 /\ \E m \in Live \ {last.n} : UidOf[store[m]] = UidOf[last.b]
                           /\ last.refused))
NoSpuriousRefusal ==
    (last.op = "put" /\ last.refused) => \E m \in Live \ {last.n} : UidOf[store[m]] = UidOf[last.b]

Bound == TLCGet("level") <= 7
=============================================================================
