----------------------------- MODULE UidCacheMC -----------------------------
EXTENDS Naturals, Sequences, FiniteSets, TLC
CONSTANT Fixed
Name == {"x", "y", "z"}
Body == {1, 2, 3, 4, 5}      \* 1,2: uid 7 ; 3: uid 8 ; 4: uid 9 ; 5: no uid
UidOf == [b \in Body |-> CASE b \in {1, 2} -> 7 [] b = 3 -> 8 [] b = 4 -> 9 [] OTHER -> 0]
VARIABLES store, f2u, u2f, last
INSTANCE UidCache
=============================================================================
