-------------------------- MODULE ReadOverlapTrace --------------------------
(***************************************************************************)
(* Reads overlapped by reads.  A report does not change the collection, so  *)
(* a report A during which another report B is answered has to be answered  *)
(* exactly as when it runs alone: per member the same status, the same      *)
(* ETag, the same data (or none, if it asked for none) and the same set of  *)
(* properties - never the property list or the data selection of B.         *)
(*   r = [pair, i, alone : name -> <<status, etag, data, hasct>>, got : ..]  *)
(***************************************************************************)
EXTENDS Naturals, Sequences, FiniteSets, TLC, Json, IOUtils, TLCExt

File == JsonDeserialize(IOEnv.TRACE_FILE)

Clause(r) ==
    IF DOMAIN r.got # DOMAIN r.alone THEN "other-members-answered-than-when-alone"
    ELSE IF \E n \in DOMAIN r.got : r.got[n][1] # r.alone[n][1] THEN "member-status-differs-from-the-answer-when-alone"
    ELSE IF \E n \in DOMAIN r.got : r.got[n][2] # r.alone[n][2] THEN "etag-differs-from-the-answer-when-alone"
    ELSE IF \E n \in DOMAIN r.got : r.alone[n][3] # 0 /\ r.got[n][3] = 0 THEN "data-asked-for-is-missing"
    ELSE IF \E n \in DOMAIN r.got : r.alone[n][3] = 0 /\ r.got[n][3] # 0 THEN "data-served-that-was-not-asked-for"
    ELSE IF \E n \in DOMAIN r.got : r.got[n][3] # r.alone[n][3] THEN "other-data-than-when-alone"
    ELSE IF \E n \in DOMAIN r.got : r.got[n][4] # r.alone[n][4] THEN "other-properties-than-asked-for"
    ELSE "ok"

Judge(r, i) ==
    IF r.stuck THEN {[i |-> i, k |-> "note", w |-> "stuck"]}
    ELSE LET c == Clause(r) IN IF c = "ok" THEN {} ELSE {[i |-> i, k |-> "viol", w |-> c]}

VARIABLES idx, done
vars == <<idx, done>>
Init == idx \in DOMAIN File.recs /\ done = FALSE /\ TLCSet(1, {})
Next == /\ ~done /\ TLCSet(1, TLCGet(1) \cup Judge(File.recs[idx], idx)) /\ done' = TRUE /\ UNCHANGED idx
Spec == Init /\ [][Next]_vars
Done == JsonSerialize(IOEnv.RESULT_FILE, [results |-> TLCGet(1)])
=============================================================================
