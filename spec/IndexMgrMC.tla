----------------------------- MODULE IndexMgrMC -----------------------------
(* Finite instance of IndexMgr for TLC.                                     *)
(* Keys: k1 k2 k3.  Filters: fA{k1}: k1 present; fB{k1,k2}: k1 present and  *)
(* 1 \in k2; fC{k3}: k3 absent (is-not-defined); fD{k2}: 2 \in k2.          *)
(* Bodies 1..4; body 4 is multi-valued on k2 ({1,2}), which a lossy Extract *)
(* (first value only) misrepresents.                                        *)
EXTENDS Naturals, Sequences, FiniteSets, TLC
CONSTANTS Threshold, Lossy, MaxDepth

Name == {"a", "b"}
Body == {1, 2, 3, 4}
Filter == {"fA", "fB", "fC", "fD"}
Key == {"k1", "k2", "k3"}
KeysOf == [f \in Filter |-> CASE f = "fA" -> {"k1"} [] f = "fB" -> {"k1", "k2"}
                              [] f = "fC" -> {"k3"} [] OTHER -> {"k2"}]
Content(b) ==
    CASE b = 1 -> [k \in Key |-> CASE k = "k1" -> {1} [] k = "k2" -> {1} [] OTHER -> {}]
      [] b = 2 -> [k \in Key |-> CASE k = "k1" -> {1} [] k = "k2" -> {2} [] OTHER -> {3}]
      [] b = 3 -> [k \in Key |-> {}]
      [] OTHER -> [k \in Key |-> CASE k = "k1" -> {2} [] k = "k2" -> {1, 2} [] OTHER -> {}]
Min(S) == CHOOSE x \in S : \A y \in S : x <= y
Extract(b, k) ==
    IF Lossy /\ Cardinality(Content(b)[k]) > 1 THEN {Min(Content(b)[k])} ELSE Content(b)[k]
Pred(f, c) ==
    CASE f = "fA" -> c["k1"] # {}
      [] f = "fB" -> c["k1"] # {} /\ 1 \in c["k2"]
      [] f = "fC" -> c["k3"] = {}
      [] OTHER    -> 2 \in c["k2"]

VARIABLES store, desired, avail, inIndex, vals, last
INSTANCE IndexMgr

Bound == TLCGet("level") <= MaxDepth
\* the history variable `last' and the exact counters do not matter beyond the threshold
View == <<store, [k \in Key |-> IF desired[k] > Threshold THEN Threshold + 1 ELSE desired[k]],
          avail, inIndex, vals>>
=============================================================================
