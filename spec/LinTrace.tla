------------------------------ MODULE LinTrace ------------------------------
(***************************************************************************)
(* Judges recorded concurrent executions of the real git stores (C05):      *)
(* each run = two operations executed under a prescribed interleaving of    *)
(* their file-system steps (harness/sched.py), with results and the final   *)
(* state read back by a freshly opened store.                               *)
(***************************************************************************)
EXTENDS Naturals, Sequences, FiniteSets, TLC, Json, IOUtils, TLCExt

File == JsonDeserialize(IOEnv.TRACE_FILE)
Runs == File.runs
CONSTANT EnabledDevs

UidOf(b) == IF b \in DOMAIN File.uid THEN File.uid[b] ELSE 0
INSTANCE Lin

VARIABLES rid, done
vars == <<rid, done>>

\* results that take no part in the sequential explanation: refused as locked, or failed
\* with an exception (lock contention inside the commit surfaces as CommitError, FileLocked or
\* FileNotFoundError).  Such an operation must then have had no effect: the final state has to
\* be explained by the remaining operations alone.
Out(run, w) == run.res[w] = "Locked" \/ run.err[w]      \* err: the answer was an exception

Verdict(run) ==
    LET ids == {"A", "B"}
        counted == {w \in ids : ~Out(run, w)}
        Never(x, y) == FALSE
        hasC == run.ops.C.t # "none"
        \* the overlapped pair is judged against the state it left behind (`mid' = `final'
        \* when there is no follow-up operation) ...
        lin == ExplainsFrom(run.init, counted, run.ops, run.res, Never, run.mid)
        \* ... and the follow-up operation C, issued after both had returned, sequentially
        \* from that state
        cOK == ~hasC \/ Out(run, "C")
               \/ LET s == SeqApply(run.mid, run.ops.C) IN run.res.C \in s.rs /\ s.m = run.final
        a == run.ops.A   b == run.ops.B
        types == run.pair          \* "put-put" | "del-put" | "del-del" (sorted, from the harness)
        same == IF a.n = b.n THEN "same" ELSE "diff"
        bothok == run.res.A = "ok" /\ run.res.B = "ok"
        clause ==
            IF ~run.opens \/ ~run.fsck THEN "repository-damaged"
            ELSE IF run.stuck THEN "stuck"
            \* the etag a put answers with is part of its answer: it is the etag of what it stored
            ELSE IF \E w \in {"A", "B", "C"} : ~run.etag_ok[w] THEN "put-answered-with-the-etag-of-other-contents"
            ELSE IF lin /\ cOK /\ ~run.views_ok THEN "stale-view-after-overlap"
            ELSE IF lin /\ cOK THEN "ok"
            ELSE IF lin THEN "wrong-answer-after-overlap"
            ELSE IF bothok /\ a.n = b.n /\ a.cond # 0 /\ a.cond = b.cond THEN "both-conditional-succeed"
            ELSE IF ~UidUniqueIn(run.mid) THEN "duplicate-uid"
            ELSE IF bothok THEN "lost-update"
            ELSE "not-linearizable"
        \* the finding is identified by store kind, operation kinds, same/different name, the
        \* violated clause and the phase in which the first writer was preempted
        \* (a follow-up answered wrongly after one of the writers had failed with an exception is
        \*  a class of its own: the failed writer left traces)
        failed == clause = "wrong-answer-after-overlap" /\ \E w \in ids : run.err[w]
        dev == "race:" \o run.kind \o ":" \o types \o ":" \o same \o ":" \o clause
               \o (IF failed THEN ":after-a-writer-failed" ELSE "") \o ":" \o run.phase
    IN  [id |-> run.id, clause |-> clause, dev |-> dev,
         k |-> IF clause = "ok" THEN "ok"
               ELSE IF clause = "stuck" THEN "note"
               ELSE IF dev \in EnabledDevs THEN "known" ELSE "viol",
         errors |-> {w \in ids : run.err[w]}]

\* histories without any overlap, issued through two long-lived store objects in turn: every
\* answer is the sequential one, the final state is the sequential one
RECURSIVE SeqFold(_, _, _, _)
SeqFold(m, ops, res, k) ==
    IF k > Len(ops) THEN [bad |-> 0, m |-> m]
    ELSE LET s == SeqApply(m, ops[k]) IN
         IF res[k] \notin s.rs THEN [bad |-> k, m |-> m] ELSE SeqFold(s.m, ops, res, k + 1)
SeqVerdict(run) ==
    LET f == SeqFold(run.init, run.ops, run.res, 1)
        clause ==
            IF ~run.opens \/ ~run.fsck THEN "repository-damaged"
            ELSE IF f.bad # 0 THEN "wrong-answer-in-a-sequential-history"
            ELSE IF f.m # run.final THEN "wrong-final-state-of-a-sequential-history"
            ELSE IF ~UidUniqueIn(run.final) THEN "duplicate-uid"
            ELSE IF \E k \in DOMAIN run.etag_ok : ~run.etag_ok[k] THEN "put-answered-with-the-etag-of-other-contents"
            ELSE IF ~run.views_ok THEN "stale-view-in-a-sequential-history"
            ELSE "ok"
        dev == "race:" \o run.kind \o ":sequential-two-processes:" \o clause
    IN  [id |-> run.id, clause |-> clause, dev |-> dev,
         k |-> IF clause = "ok" THEN "ok" ELSE IF dev \in EnabledDevs THEN "known" ELSE "viol",
         errors |-> {}]

Init == rid \in DOMAIN Runs /\ done = FALSE /\ TLCSet(1, {})
Next == /\ ~done
        /\ TLCSet(1, TLCGet(1) \cup {IF "who" \in DOMAIN Runs[rid] THEN SeqVerdict(Runs[rid]) ELSE Verdict(Runs[rid])})
        /\ done' = TRUE /\ UNCHANGED rid
Spec == Init /\ [][Next]_vars
Done == JsonSerialize(IOEnv.RESULT_FILE, [results |-> TLCGet(1)])
=============================================================================
