SPECIFICATION Spec
CONSTANTS
  Threshold = 0
  Lossy = FALSE
  MaxDepth = 1000
CHECK_DEADLOCK FALSE
