--------------------------- MODULE DavDeviations ---------------------------
(***************************************************************************)
(* Known findings as named deviation predicates (DESIGN 2.5).               *)
(*                                                                          *)
(* DevFor(v, ev, pre, post, cfg) names the listed finding that explains     *)
(* verdict v of DavTrace!Judge *exactly* (its guard states the precise      *)
(* circumstances), or "" if none does.  A finding is only honoured when     *)
(* its id is in EnabledDevs (generated from known_findings.json: open       *)
(* findings only).  A `fixed' finding has no entry in EnabledDevs, so the   *)
(* behaviour is a VIOLATION again if it ever returns.                       *)
(***************************************************************************)
EXTENDS Naturals, Sequences, FiniteSets

DevFor(v, ev, pre, post, cfg) == ""
=============================================================================
