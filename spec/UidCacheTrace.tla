---------------------------- MODULE UidCacheTrace ----------------------------
(***************************************************************************)
(* Conformance of the real UID bookkeeping with UidCache.tla: store-API      *)
(* sessions record store._uid_to_fname / _fname_to_uid after every step;     *)
(* the model's Scan is replayed on the observed contents and compared.       *)
(* A mismatch is MODEL DRIFT (note); the property verdicts come from         *)
(* DavTrace (UidUnique, spurious refusal).                                   *)
(***************************************************************************)
EXTENDS Naturals, Sequences, FiniteSets, TLC, Json, IOUtils, TLCExt

File == JsonDeserialize(IOEnv.TRACE_FILE)
Traces == File.traces
UidStr(b) == IF b \in DOMAIN File.bodies /\ File.bodies[b].kind = "ics" THEN File.bodies[b].uid ELSE ""

VARIABLES tid, l, F, U, out
vars == <<tid, l, F, U, out>>
Tr == Traces[tid]
AuditAt(i) == IF i = 0 THEN Tr.init ELSE Tr.events[i].audit
Members(a) == a.colls.s.members
Drop(f, k) == [x \in DOMAIN f \ {k} |-> f[x]]
Upd(f, k, v) == [x \in DOMAIN f \cup {k} |-> IF x = k THEN v ELSE f[x]]

RECURSIVE ScanFiles(_, _, _, _)
ScanFiles(todo, ms, Fm, Um) ==
    IF todo = {} THEN [f |-> Fm, u |-> Um]
    ELSE LET n == CHOOSE x \in todo : TRUE
             e == ms[n].e
             uid == UidStr(ms[n].b) IN
         IF n \in DOMAIN Fm /\ Fm[n][1] = e THEN ScanFiles(todo \ {n}, ms, Fm, Um)
         ELSE LET U1 == IF n \in DOMAIN Fm /\ Fm[n][2] # "" /\ Fm[n][2] \in DOMAIN Um /\ Um[Fm[n][2]] = n
                          THEN Drop(Um, Fm[n][2]) ELSE Um
                  U2 == IF uid # "" THEN Upd(U1, uid, n) ELSE U1 IN
              ScanFiles(todo \ {n}, ms, Upd(Fm, n, <<e, uid>>), U2)
RECURSIVE DropRemoved(_, _, _)
DropRemoved(rem, Fm, Um) ==
    IF rem = {} THEN [f |-> Fm, u |-> Um]
    ELSE LET n == CHOOSE x \in rem : TRUE
             uid == Fm[n][2] IN
         DropRemoved(rem \ {n}, Drop(Fm, n), IF uid # "" /\ uid \in DOMAIN Um /\ Um[uid] = n THEN Drop(Um, uid) ELSE Um)
Scan(ms) ==
    LET s1 == ScanFiles(DOMAIN ms, ms, F, U) IN DropRemoved(DOMAIN F \ DOMAIN ms, s1.f, s1.u)

Init == tid \in {i \in DOMAIN Traces : Traces[i].cfg.frontend = "store-api"} /\ l = 1 /\ F = <<>> /\ U = <<>> /\ out = {} /\ TLCSet(1, {})
Step ==
    /\ l <= Len(Tr.events)
    /\ LET ev == Tr.events[l]  pre == Members(AuditAt(l - 1)) IN
       IF ev.op = "Restart" THEN F' = <<>> /\ U' = <<>> /\ UNCHANGED out
       ELSE IF ev.op = "Put" /\ UidStr(ev.b) # "" /\ ev.resp.cond # "valid-calendar-data" THEN
            LET s == Scan(pre)
                refused == UidStr(ev.b) \in DOMAIN s.u /\ s.u[UidStr(ev.b)] # ev.n
                obsU == ev.u2f
                drift == (DOMAIN obsU # DOMAIN s.u \/ \E k \in DOMAIN obsU \cap DOMAIN s.u : obsU[k] # s.u[k])
                         \/ (refused # (ev.resp.cond = "no-uid-conflict"))
            IN /\ out' = IF drift THEN out \cup {[i |-> l, model |-> s.u, real |-> obsU, model_refuses |-> refused,
                                                   real_cond |-> ev.resp.cond]} ELSE out
               \* continue from what the real store holds
               /\ U' = obsU
               /\ F' = [n \in DOMAIN ev.f2u |-> <<ev.f2u[n].e, ev.f2u[n].uid>>]
       ELSE UNCHANGED <<F, U, out>>
    /\ l' = l + 1 /\ UNCHANGED tid
Finish == /\ l = Len(Tr.events) + 1
          /\ TLCSet(1, TLCGet(1) \cup {[id |-> Tr.id, drift |-> out]})
          /\ l' = l + 1 /\ UNCHANGED <<tid, F, U, out>>
Spec == Init /\ [][Step \/ Finish]_vars
Done == JsonSerialize(IOEnv.RESULT_FILE, [results |-> TLCGet(1)])
=============================================================================
