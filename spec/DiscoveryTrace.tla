---------------------------- MODULE DiscoveryTrace ----------------------------
(***************************************************************************)
(* C18: judges recorded life cycles of the real server (subprocess of       *)
(* `python -m xandikos`, or the xandikos.wsgi module in a fresh             *)
(* interpreter).  One record per configuration: route prefix, principal     *)
(* path, front end, and a sequence of starts, each with its flags and what  *)
(* the discovery walk observed plus a digest of the data directory.         *)
(***************************************************************************)
EXTENDS Naturals, Sequences, FiniteSets, TLC, Json, IOUtils, TLCExt

File == JsonDeserialize(IOEnv.TRACE_FILE)
CONSTANT EnabledDevs

\* s = one start: [flags, up, wellknown, principal_ok, cal_ok, ab_ok, userdata_ok, preserved, extra_ok]
Clauses(run, k) ==
    LET s == run.starts[k]
        everDef == \E j \in 1..k : run.starts[j].flags = "defaults"
        everCreate == \E j \in 1..k : run.starts[j].flags \in {"defaults", "autocreate"}
    IN (IF ~s.up THEN {"server-does-not-start"} ELSE {})
       \cup (IF s.up /\ ~s.wellknown THEN {"well-known-redirect-misses-the-prefix"} ELSE {})
       \cup (IF s.up /\ everCreate /\ ~s.principal_ok THEN {"walk-does-not-reach-a-principal"} ELSE {})
       \cup (IF s.up /\ everDef /\ s.principal_ok /\ ~s.cal_ok THEN {"walk-does-not-reach-a-calendar"} ELSE {})
       \cup (IF s.up /\ everDef /\ s.principal_ok /\ ~s.ab_ok THEN {"walk-does-not-reach-an-addressbook"} ELSE {})
       \cup (IF s.up /\ k > 1 /\ ~s.userdata_ok THEN {"user-data-lost-or-changed-by-restart"} ELSE {})
       \cup (IF k > 1 /\ ~s.preserved THEN {"restart-removed-or-reinitialised-existing-data"} ELSE {})
       \* what a client is shown (collections of the home sets with their resource types) at the
       \* end of one lifetime of the server is what it is shown at the start of the next
       \cup (IF s.up /\ k > 1 /\ ~s.listing_same THEN {"collections-listed-differently-after-restart"} ELSE {})

Judge(run, i) ==
    UNION {
      {[k |-> IF d \in EnabledDevs THEN "known" ELSE "viol", i |-> i, start |-> k, dev |-> d] :
          d \in {"discovery:" \o c \o ":" \o run.frontend \o ":flags=" \o run.starts[k].flags
                   \o (IF k > 1 THEN ":restart" ELSE ":first-start") : c \in Clauses(run, k)}}
      : k \in DOMAIN run.starts }

VARIABLES idx, done
vars == <<idx, done>>
Init == idx \in DOMAIN File.runs /\ done = FALSE /\ TLCSet(1, {})
Next == /\ ~done
        /\ TLCSet(1, TLCGet(1) \cup Judge(File.runs[idx], idx))
        /\ done' = TRUE /\ UNCHANGED idx
Spec == Init /\ [][Next]_vars
Done == JsonSerialize(IOEnv.RESULT_FILE, [results |-> TLCGet(1)])
=============================================================================
