-------------------------------- MODULE Lin --------------------------------
(***************************************************************************)
(* C05, property level: a finite set of completed store operations with     *)
(* their results, an initial and a final member map, is *linearizable* iff  *)
(* some total order of the operations (respecting each writer's program     *)
(* order), executed one after another with the sequential semantics of the  *)
(* store API (= the Dav outcome operators restricted to put/delete with one *)
(* listed validator), yields exactly those results and that final state.    *)
(* Operations refused as locked take no part.                               *)
(***************************************************************************)
EXTENDS Naturals, Sequences, FiniteSets

CONSTANT UidOf(_)      \* content -> uid, 0 = none

None == 0
Upd(f, k, v) == [x \in DOMAIN f \cup {k} |-> IF x = k THEN v ELSE f[x]]
Drop(f, k)   == [x \in DOMAIN f \ {k} |-> f[x]]
Get(f, k)    == IF k \in DOMAIN f THEN f[k] ELSE None

Clash(m, n, b) == UidOf(b) # 0 /\ \E x \in DOMAIN m \ {n} : UidOf(m[x]) = UidOf(b)

\* op = [t |-> "put"|"del", n, b, cond]   cond: 0 = unconditional, else required content
\* -> [m |-> state afterwards, rs |-> admissible answers].  When a put violates both its
\* etag condition and the UID rule either refusal is admissible (the HTTP handler tests the
\* header first, the store the UID).
SeqApply(m, o) ==
    IF o.t = "read" THEN [m |-> m, rs |-> {"ok"}]
    ELSE IF o.t = "del" THEN
        IF o.n \notin DOMAIN m THEN [m |-> m, rs |-> IF o.cond # 0 THEN {"NoSuchItem", "InvalidETag"} ELSE {"NoSuchItem"}]
        ELSE IF o.cond # 0 /\ m[o.n] # o.cond THEN [m |-> m, rs |-> {"InvalidETag"}]
        ELSE [m |-> Drop(m, o.n), rs |-> {"ok"}]
    ELSE
        LET clash == Clash(m, o.n, o.b)
            stale == o.cond # 0 /\ Get(m, o.n) # o.cond IN
        IF clash \/ stale
          THEN [m |-> m, rs |-> (IF clash THEN {"DuplicateUid"} ELSE {}) \cup (IF stale THEN {"InvalidETag"} ELSE {})]
          ELSE [m |-> Upd(m, o.n, o.b), rs |-> {"ok"}]

\* ids: set of operation ids; Ops[id] the operation; Res[id] its result;
\* Before(a, b): a precedes b in its writer's program
RECURSIVE ExplainsFrom(_, _, _, _, _, _)
ExplainsFrom(m, todo, Ops, Res, Before(_, _), final) ==
    IF todo = {} THEN m = final
    ELSE \E id \in todo :
            /\ ~\E other \in todo : Before(other, id)
            /\ LET s == SeqApply(m, Ops[id]) IN
               /\ Res[id] \in s.rs
               /\ ExplainsFrom(s.m, todo \ {id}, Ops, Res, Before, final)

\* the set of states some admissible order of `todo' ends in, reproducing the results
RECURSIVE EndStates(_, _, _, _, _)
EndStates(m, todo, Ops, Before(_, _), Res) ==
    IF todo = {} THEN {m}
    ELSE UNION { LET s == SeqApply(m, Ops[id]) IN
                 IF (\E other \in todo : Before(other, id)) \/ Res[id] \notin s.rs THEN {}
                 ELSE EndStates(s.m, todo \ {id}, Ops, Before, Res)
                 : id \in todo }

UidUniqueIn(m) == \A x, y \in DOMAIN m : (x # y /\ UidOf(m[x]) # 0) => UidOf(m[x]) # UidOf(m[y])
=============================================================================
