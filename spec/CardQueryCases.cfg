SPECIFICATION Spec
CONSTANTS
  MaxNeedle = 2
  MaxValue = 2
POSTCONDITION Write
CHECK_DEADLOCK FALSE
