------------------------------- MODULE Layout -------------------------------
(***************************************************************************)
(* C16, the listing half: a collection layout is a finite tree of nodes     *)
(*    [id, parent, coll, kind]                                              *)
(* (id "R" is the root of the layout, parent "" its absent parent).  What a *)
(* PROPFIND addressed at node `at' with Depth d must describe is            *)
(*    Expected(t, at, 0) = {at}                                             *)
(*    Expected(t, at, 1) = {at} \cup the direct children of at              *)
(* each exactly once, whatever the kinds of the collections involved - a    *)
(* calendar or addressbook collection that holds a sub-collection lists it  *)
(* like any other collection does, and never lists grandchildren.           *)
(***************************************************************************)
EXTENDS Naturals, Sequences, FiniteSets

Kinds == {"calendar", "addressbook", "plain"}

Ids(t) == {n.id : n \in t}
Node(t, i) == CHOOSE n \in t : n.id = i
Children(t, i) == {n.id : n \in {m \in t : m.parent = i}}
Expected(t, at, depth) == {at} \cup (IF depth = 1 THEN Children(t, at) ELSE {})

WellFormed(t) ==
    /\ \A n, m \in t : n.id = m.id => n = m
    /\ \A n \in t : n.parent = "" \/ (n.parent \in Ids(t) /\ Node(t, n.parent).coll)
    /\ Cardinality({n \in t : n.parent = ""}) = 1

\* the layouts of the case table: root R (plain) holds the collection P of every kind; P holds
\* any subset of {a file F, a plain sub-collection S, a calendar sub-collection C}; S holds any
\* subset of {a file G, a collection H}
N(i, p, c, k) == [id |-> i, parent |-> p, coll |-> c, kind |-> k]
Layouts ==
    { {N("R", "", TRUE, "plain"), N("P", "R", TRUE, pk)} \cup inP \cup inS :
        pk \in Kinds,
        inP \in SUBSET {N("F", "P", FALSE, "file"), N("S", "P", TRUE, "plain"), N("C", "P", TRUE, "calendar")},
        inS \in SUBSET {N("G", "S", FALSE, "file"), N("H", "S", TRUE, "plain")} }
Cases == {t \in Layouts : WellFormed(t)}

\* verdict on one observed listing: got is the sequence of node ids the emitted hrefs resolved
\* to ("?" = the href did not resolve to a node of the layout)
Count(got, i) == Cardinality({k \in DOMAIN got : got[k] = i})
Clauses(t, at, depth, got) ==
    LET exp == Expected(t, at, depth)
        seen == {got[k] : k \in DOMAIN got} IN
    (IF exp \ seen # {} THEN {"member-missing-from-listing"} ELSE {})
    \cup (IF "?" \in seen THEN {"listed-href-does-not-resolve"} ELSE {})
    \cup (IF (seen \ {"?"}) \ exp # {} THEN {"listing-has-a-resource-that-is-not-a-direct-member"} ELSE {})
    \cup (IF \E i \in seen \ {"?"} : Count(got, i) > 1 THEN {"listed-twice"} ELSE {})
=============================================================================
