--------------------------- MODULE CalQueryCases ---------------------------
(***************************************************************************)
(* The finite case space of C11 and its expected verdicts, enumerated by    *)
(* TLC from CalQuery.tla and written as JSON for the harness                *)
(* (spec -> code).  Grid 0..6, query range [2, 4), one day = 2 grid units.  *)
(***************************************************************************)
EXTENDS Naturals, Integers, Sequences, FiniteSets, TLC, Json, IOUtils, TLCExt, SequencesExt

S == 2
E == 4
D1 == 2
INSTANCE CalQuery

G == 0..6
Even == {0, 2, 4, 6}
N == NoVal

Rec(kind, ds, de, du, isdate, due, co, cr, fs, fe) ==
    [kind |-> kind, dtstart |-> ds, dtend |-> de, dur |-> du, isdate |-> isdate, due |-> due,
     completed |-> co, created |-> cr, fbstart |-> fs, fbend |-> fe]

VEventCases ==
    {Rec("VEVENT", ds, de, N, FALSE, N, N, N, N, N) : ds \in G, de \in G}
    \cup {Rec("VEVENT", ds, N, du, FALSE, N, N, N, N, N) : ds \in G, du \in {0, 1, 2}}
    \cup {Rec("VEVENT", ds, N, N, FALSE, N, N, N, N, N) : ds \in G}
    \cup {Rec("VEVENT", ds, de, N, TRUE, N, N, N, N, N) : ds \in Even, de \in Even}
    \cup {Rec("VEVENT", ds, N, 2, TRUE, N, N, N, N, N) : ds \in Even}
    \cup {Rec("VEVENT", ds, N, N, TRUE, N, N, N, N, N) : ds \in Even}

VTodoCases ==
    \* rows 1-3 (with and without the ignored COMPLETED/CREATED)
    {Rec("VTODO", ds, N, du, FALSE, N, x, x, N, N) : ds \in G, du \in {0, 1, 2}, x \in {N, 3}}
    \cup {Rec("VTODO", ds, N, N, FALSE, due, x, x, N, N) : ds \in G, due \in G, x \in {N, 3}}
    \cup {Rec("VTODO", ds, N, N, FALSE, N, x, x, N, N) : ds \in G, x \in {N, 3}}
    \* row 4
    \cup {Rec("VTODO", N, N, N, FALSE, due, x, x, N, N) : due \in G, x \in {N, 3}}
    \* rows 5-8
    \cup {Rec("VTODO", N, N, N, FALSE, N, co, cr, N, N) : co \in G \cup {N}, cr \in G \cup {N}}

VJournalCases ==
    {Rec("VJOURNAL", ds, N, N, FALSE, N, N, N, N, N) : ds \in G \cup {N}}
    \cup {Rec("VJOURNAL", ds, N, N, TRUE, N, N, N, N, N) : ds \in Even}

VFreeBusyCases ==
    {Rec("VFREEBUSY", ds, de, N, FALSE, N, N, N, N, N) : ds \in G, de \in G}
    \cup {Rec("VFREEBUSY", N, N, N, FALSE, N, N, N, fs, fe) : fs \in G, fe \in G}
    \cup {Rec("VFREEBUSY", N, N, N, FALSE, N, N, N, N, N)}

TimeCases == {c \in VEventCases \cup VTodoCases \cup VJournalCases \cup VFreeBusyCases :
                 /\ (c.kind = "VEVENT" /\ Has(c.dtend) => c.dtend > c.dtstart)
                 /\ (c.kind = "VTODO" /\ Has(c.due) /\ Has(c.dtstart) => c.due >= c.dtstart)
                 /\ (c.kind = "VFREEBUSY" /\ Has(c.dtstart) => c.dtend > c.dtstart)
                 /\ (c.kind = "VFREEBUSY" /\ Has(c.fbstart) => c.fbend > c.fbstart)}

TimeTable == {[c |-> c, want |-> Overlaps(c.kind, c)] : c \in TimeCases}

(* structural filters *)
NoTm == [on |-> FALSE, needle |-> "", neg |-> FALSE, coll |-> "i;ascii-casemap"]
Tms(needles) == {[on |-> TRUE, needle |-> n, neg |-> g, coll |-> co] :
                    n \in needles, g \in BOOLEAN, co \in {"i;ascii-casemap", "i;octet"}}
F(comp, cnd, prop, pnd, tm, param, qnd, ptm) ==
    [comp |-> comp, cnd |-> cnd, prop |-> prop, pnd |-> pnd, tm |-> tm, param |-> param, qnd |-> qnd, ptm |-> ptm]
Filters ==
    {F(k, b, "", FALSE, NoTm, "", FALSE, NoTm) : k \in {"VEVENT", "VTODO"}, b \in BOOLEAN}
    \cup {F("VEVENT", FALSE, p, b, NoTm, "", FALSE, NoTm) : p \in {"SUMMARY", "ATTENDEE", "RRULE"}, b \in BOOLEAN}
    \cup {F("VEVENT", FALSE, "SUMMARY", FALSE, tm, "", FALSE, NoTm) : tm \in Tms({"meet", "Meeting", "xyz", "NONASCII", "NONASCII-UP", "ESCAPED", "ESCAPED-UP", "FOLDED"})}
    \cup {F("VEVENT", FALSE, "ATTENDEE", FALSE, NoTm, "PARTSTAT", b, NoTm) : b \in BOOLEAN}
    \cup {F("VEVENT", FALSE, "ATTENDEE", FALSE, NoTm, "PARTSTAT", FALSE, tm) : tm \in Tms({"ACC", "accepted"})}

Comp(kind, s, a) == [kind |-> kind, summary |-> s, att |-> a]
EventVariants == {Comp("VEVENT", s, a) : s \in {"", "Meeting", "meeting notes", "NONASCII", "RECURRING", "ESCAPED", "FOLDED", "EMPTYVAL"},
                                         a \in {"none", "plain", "accepted", "declined"}}
Objects == {{e} : e \in EventVariants}
           \cup {{Comp("VTODO", "Meeting", "none")}}
           \cup {{e, Comp("VTODO", "", "none")} : e \in {Comp("VEVENT", "Meeting", "accepted"), Comp("VEVENT", "", "none")}}

\* objects with two components of the same type (the second one an override carrying
\* RECURRENCE-ID), in both orders: the component that decides may be the first or the last
PairVariants == {Comp("VEVENT", "Meeting", "accepted"), Comp("VEVENT", "", "none"),
                 Comp("VEVENT", "meeting notes", "declined"), Comp("VEVENT", "xyz", "plain")}
Objects2 == {q \in PairVariants \X PairVariants : q[1] # q[2]}
            \cup {<<a, b, Comp("VTODO", "", "none")>> : a \in {Comp("VEVENT", "Meeting", "accepted")}, b \in {Comp("VEVENT", "", "none")}}
RangeOf(q) == {q[j] : j \in DOMAIN q}

FilterTable == {[f |-> f, obj |-> SetToSeq(o), want |-> ObjMatches(f, o)] : f \in Filters, o \in Objects}
               \cup {[f |-> f, obj |-> q, want |-> ObjMatches(f, RangeOf(q))] : f \in Filters, q \in Objects2}

VARIABLE x
Init == x = 0
Next == UNCHANGED x
Spec == Init /\ [][Next]_x
Write == TLCGet("distinct") >= 0 /\ JsonSerialize(IOEnv.RESULT_FILE, [time |-> SetToSeq(TimeTable), filters |-> SetToSeq(FilterTable)])
=============================================================================
