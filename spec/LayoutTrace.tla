----------------------------- MODULE LayoutTrace -----------------------------
(* C16: judges the Depth 0 / Depth 1 listings recorded on real servers against Layout.tla *)
EXTENDS Naturals, Sequences, FiniteSets, TLC, Json, IOUtils, TLCExt
INSTANCE Layout

File == JsonDeserialize(IOEnv.TRACE_FILE)
CONSTANT EnabledDevs

\* r = [tree : seq of nodes, at, depth, body (prop | allprop | nobody | propname), got : seq of ids, slash : BOOLEAN, badprops : seq of
\*      property names, status, frontend, prefix]
Tree(r) == {r.tree[k] : k \in DOMAIN r.tree}
Judge(r, i) ==
    LET t == Tree(r)
        cl == IF r.status # 207 THEN {"propfind-refused"}
              ELSE Clauses(t, r.at, r.depth, r.got)
                   \cup (IF ~r.slash THEN {"collection-href-without-trailing-slash"} ELSE {})
                   \* hrefs inside property values (owner, principal, home sets ...) dereference too
                   \cup {"href-in-property-" \o r.badprops[k] \o "-does-not-resolve" : k \in DOMAIN r.badprops} IN
    {[k |-> IF d \in EnabledDevs THEN "known" ELSE "viol", i |-> i, dev |-> d] :
        d \in {"layout:" \o c \o ":in-" \o Node(t, r.at).kind \o ":depth" \o ToString(r.depth) \o ":" \o r.body : c \in cl}}

VARIABLES idx, done
vars == <<idx, done>>
Init == idx \in DOMAIN File.recs /\ done = FALSE /\ TLCSet(1, {})
Next == /\ ~done
        /\ TLCSet(1, TLCGet(1) \cup Judge(File.recs[idx], idx))
        /\ done' = TRUE /\ UNCHANGED idx
Spec == Init /\ [][Next]_vars
Done == JsonSerialize(IOEnv.RESULT_FILE, [results |-> TLCGet(1)])
=============================================================================
