------------------------------ MODULE HrefCases ------------------------------
EXTENDS Naturals, Sequences, FiniteSets, TLC, Json, IOUtils, TLCExt, SequencesExt
INSTANCE Href
CONSTANT MaxLen, Full
\* all names up to MaxLen; when ~Full the longest names are restricted to the escape-like
\* ones and those mixing two different reserved classes
Interesting(n) == Len(n) < MaxLen \/ Full \/ EscapeLike(n)
                  \/ (Cardinality({n[i] : i \in DOMAIN n} \ {"x", "2", "4", "0"}) >= 2 /\ n[1] # " " /\ n[Len(n)] # " ")
ASSUME RoundTrip(IF MaxLen > 2 THEN 2 ELSE MaxLen)
Table == {[name |-> n, emit |-> Emit(n)] : n \in {m \in Names(MaxLen) : Interesting(m)}}
VARIABLE x
Init == x = 0
Next == UNCHANGED x
Spec == Init /\ [][Next]_x
Thm == RoundTrip(2) /\ Injective(2)
Write == TLCGet("distinct") >= 0 /\ Thm /\ JsonSerialize(IOEnv.RESULT_FILE, [cases |-> SetToSeq(Table)])
=============================================================================
