------------------------------ MODULE CardQuery ------------------------------
(***************************************************************************)
(* C12, property level: which vCards match a CardDAV addressbook-query      *)
(* filter (RFC 6352 section 10.5).  Text is a sequence over a five letter   *)
(* alphabet  a A b e' E'  (e' = U+00E9, E' = U+00C9) so that every          *)
(* collation folds differently:                                             *)
(*    i;octet            no folding                                         *)
(*    i;ascii-casemap    A -> a                                             *)
(*    i;unicode-casemap  A -> a, E' -> e'                                   *)
(* Decision tables, enumerated and re-evaluated by TLC (see CalQuery.tla).  *)
(***************************************************************************)
EXTENDS Naturals, Sequences, FiniteSets

Letters == {"a", "A", "b", "s", "e'", "E'", "sp"}     \* "sp" = a blank: significant in needles and values
\* letters that occur in card values only: sharp s and long s.  Their *Unicode* case mappings
\* yield ASCII letters (SS / S), which i;octet and i;ascii-casemap must not apply; what
\* i;unicode-casemap makes of them is left open (such pairs are not judged).
Special == {"ss'", "ls'"}
HasSpecial(s) == \E i \in DOMAIN s : s[i] \in Special

FoldLetter(coll, x) ==
    CASE coll = "i;octet" -> x
      [] coll = "i;ascii-casemap" -> IF x = "A" THEN "a" ELSE x
      [] OTHER -> IF x = "A" THEN "a" ELSE IF x = "E'" THEN "e'" ELSE x
Fold(coll, s) == [i \in DOMAIN s |-> FoldLetter(coll, s[i])]

IsPrefixOf(n, v) == Len(n) <= Len(v) /\ SubSeq(v, 1, Len(n)) = n
IsSuffixOf(n, v) == Len(n) <= Len(v) /\ SubSeq(v, Len(v) - Len(n) + 1, Len(v)) = n
IsSubstrOf(n, v) == \E i \in 1..(Len(v) - Len(n) + 1) : SubSeq(v, i, i + Len(n) - 1) = n

\* tm = [type, coll, neg, needle]
TextMatch(tm, value) ==
    LET n == Fold(tm.coll, tm.needle)  v == Fold(tm.coll, value)
        m == CASE tm.type = "equals"      -> n = v
               [] tm.type = "contains"    -> IsSubstrOf(n, v)
               [] tm.type = "starts-with" -> IsPrefixOf(n, v)
               [] OTHER                   -> IsSuffixOf(n, v)
    IN IF tm.neg THEN ~m ELSE m

\* a property instance: [v |-> text, type |-> "" | a parameter value (text)]
\* pf = [name, nd, test, tms (seq of text-match), par (seq of [nd, tm])]
ParamMatches(p, inst) ==
    IF p.nd THEN inst.type = <<>>
    ELSE inst.type # <<>> /\ (p.tm.on => TextMatch(p.tm, inst.type))

InstanceMatches(pf, inst) ==
    LET results == {TextMatch(pf.tms[i], inst.v) : i \in DOMAIN pf.tms}
                   \cup {ParamMatches(pf.par[i], inst) : i \in DOMAIN pf.par}
    IN IF pf.test = "allof" THEN results \subseteq {TRUE} ELSE TRUE \in results

\* card: property name -> sequence of instances
PropFilterMatches(pf, card) ==
    LET insts == IF pf.name \in DOMAIN card THEN card[pf.name] ELSE <<>> IN
    IF pf.nd THEN insts = <<>>
    ELSE IF pf.tms = <<>> /\ pf.par = <<>> THEN insts # <<>>
    ELSE \E i \in DOMAIN insts : InstanceMatches(pf, insts[i])

\* filter = [test, pfs]
CardMatches(f, card) ==
    IF f.pfs = <<>> THEN TRUE
    ELSE LET rs == {PropFilterMatches(f.pfs[i], card) : i \in DOMAIN f.pfs} IN
         IF f.test = "allof" THEN rs \subseteq {TRUE} ELSE TRUE \in rs
=============================================================================
