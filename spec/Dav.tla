-------------------------------- MODULE Dav --------------------------------
(***************************************************************************)
(* Property-level specification (level A, DESIGN 2.1) of a xandikos server *)
(* as seen through HTTP / the Store API: collections, members, collection  *)
(* properties, per-collection history.                                      *)
(*                                                                          *)
(* Every request is ONE atomic action.  The effect of a request is given    *)
(* by a pure *outcome operator*  XOutcome(st, rq, curTag)  that returns     *)
(*    must   "succeed" | "fail"   what the listed properties demand         *)
(*    why    the clause that decides (maps to a property id)                *)
(*    st     the state after the request if it succeeds                     *)
(*    fail   the admissible response classes if it must fail                *)
(* The same operators are used                                              *)
(*   - by the actions below (model checking / simulation: spec -> code),    *)
(*   - by DavTrace.tla, which judges recorded executions (code -> spec).    *)
(*                                                                          *)
(* Serves C01 C02 C03 C06 C07 C08 C09 C14 C15 C16(listing) C17.             *)
(***************************************************************************)
EXTENDS Naturals, Sequences, FiniteSets, TLC, SequencesExt

CONSTANTS
    Coll,       \* collection slots (abstract paths)
    Name,       \* member names
    Body,       \* abstract bodies (canonical content identities)
    PropName,   \* settable collection properties
    Value,      \* property values
    BValid(_),  \* body is well-formed for its media type
    BUid(_),    \* UID of a body ("" = none / media type without UIDs)
    BKind(_),   \* "ics" | "vcf" | "other"
    DefaultKind(_), \* kind with which a start with --defaults creates the slot if absent ("" = not a default collection)
    PropOK(_,_) \* PropOK(kind, p): property p is settable on a collection of that kind

NoUid == ""
NoTag == 0          \* validator of an absent resource (bodies / etag ids are never 0)
Kinds == {"calendar", "addressbook", "other"}

(***************************************************************************)
(* Abstract state record.                                                   *)
(*   colls : existing collection  |-> kind                                  *)
(*   store : existing collection  |-> (live member name |-> body)           *)
(*   props : existing collection  |-> (set property     |-> value)          *)
(***************************************************************************)
EmptyFn == <<>>     \* the function with empty domain

Upd(f, k, v)   == [x \in DOMAIN f \cup {k} |-> IF x = k THEN v ELSE f[x]]
Drop(f, k)     == [x \in DOMAIN f \ {k} |-> f[x]]

InitSt == [colls |-> EmptyFn, store |-> EmptyFn, props |-> EmptyFn]

Exists(st, c)   == c \in DOMAIN st.colls
Live(st, c)     == DOMAIN st.store[c]
IsLive(st,c,n)  == Exists(st, c) /\ n \in Live(st, c)
UidHolders(st, c, u) == {m \in Live(st, c) : BUid(st.store[c][m]) = u}

Snapshot(st, c) == [m |-> st.store[c], p |-> st.props[c]]

(***************************************************************************)
(* Conditional headers.  A condition is [present, star, tags]; `tags' is a  *)
(* set of validators.  curTag is the validator of the addressed resource    *)
(* (NoTag when it does not exist).                                          *)
(***************************************************************************)
NoCond == [present |-> FALSE, star |-> FALSE, tags |-> {}]
CondMatches(cond, curTag) ==
    /\ curTag # NoTag
    /\ (cond.star \/ curTag \in cond.tags)

(***************************************************************************)
(* Outcomes                                                                 *)
(***************************************************************************)
MustFail(st, why, classes) ==
    [must |-> "fail", why |-> why, st |-> st, fail |-> classes]
MustSucceed(st2) ==
    [must |-> "succeed", why |-> "none", st |-> st2, fail |-> {}]

UidClash(st, c, n, b) ==
    /\ BKind(b) = "ics"
    /\ BUid(b) # NoUid
    /\ UidHolders(st, c, BUid(b)) \ {n} # {}

PutOutcome(st, rq, curTag) ==
    LET c == rq.c  n == rq.n  b == rq.b IN
    IF ~Exists(st, c)
      THEN MustFail(st, "nocoll", {"notfound", "refused", "precond"})
    ELSE IF rq.im.present /\ ~CondMatches(rq.im, curTag)
      THEN MustFail(st, "ifmatch", {"precond"})
    ELSE IF rq.inm.present /\ CondMatches(rq.inm, curTag)
      THEN MustFail(st, "ifnonematch", {"precond"})
    ELSE IF ~BValid(b)
      THEN MustFail(st, "invalid", {"precond", "refused"})
    ELSE IF UidClash(st, c, n, b)
      THEN MustFail(st, "uid", {"precond", "refused"})
    ELSE MustSucceed([st EXCEPT !.store[c] = Upd(@, n, b)])

\* POST add-member: the server chooses the name; `n' is the name it chose.
PostOutcome(st, rq) ==
    LET c == rq.c  n == rq.n  b == rq.b IN
    IF ~Exists(st, c)
      THEN MustFail(st, "nocoll", {"notfound", "refused"})
    ELSE IF ~BValid(b)
      THEN MustFail(st, "invalid", {"precond", "refused"})
    ELSE IF UidClash(st, c, n, b)
      THEN MustFail(st, "uid", {"precond", "refused"})
    ELSE IF n \in Live(st, c)
      THEN MustFail(st, "fresh", {})          \* a chosen name must be fresh: success is a violation
    ELSE MustSucceed([st EXCEPT !.store[c] = Upd(@, n, b)])

DeleteOutcome(st, rq, curTag) ==
    LET c == rq.c  n == rq.n IN
    IF ~IsLive(st, c, n)
      THEN MustFail(st, "absent", IF rq.im.present THEN {"notfound", "precond"}
                                                   ELSE {"notfound"})
    ELSE IF rq.im.present /\ ~CondMatches(rq.im, curTag)
      THEN MustFail(st, "ifmatch", {"precond"})
    ELSE MustSucceed([st EXCEPT !.store[c] = Drop(@, n)])

\* MKCOL / MKCALENDAR / extended MKCOL creating collection c of kind k.
MkOutcome(st, rq) ==
    LET c == rq.c IN
    IF Exists(st, c)
      THEN MustFail(st, "exists", {"refused"})
    ELSE MustSucceed([colls |-> Upd(st.colls, c, rq.kind),
                      store |-> Upd(st.store, c, EmptyFn),
                      props |-> Upd(st.props, c, EmptyFn)])

\* DELETE of a collection; like every DELETE it honours If-Match (rq.im), evaluated against
\* the validator curTag the collection itself currently has (its getetag)
DeleteCollOutcome(st, rq, curTag) ==
    LET c == rq.c IN
    IF ~Exists(st, c)
      THEN MustFail(st, "absent", {"notfound", "precond"})
    ELSE IF rq.im.present /\ ~CondMatches(rq.im, curTag)
      THEN MustFail(st, "ifmatch", {"precond"})
    ELSE MustSucceed([colls |-> Drop(st.colls, c),
                      store |-> Drop(st.store, c),
                      props |-> Drop(st.props, c)])

\* PROPPATCH of DAV:resourcetype: the client asks for another kind of collection.  A valid
\* combination of resource types makes the collection one of that kind (members and properties
\* stay); a combination that denotes no kind (rq.kind = "") is refused without effect.
RetypeOutcome(st, rq) ==
    LET c == rq.c IN
    IF ~Exists(st, c) THEN MustFail(st, "nocoll", {"notfound", "refused"})
    ELSE IF rq.kind = "" THEN MustFail(st, "badtype", {"refused", "precond"})
    ELSE MustSucceed([st EXCEPT !.colls[c] = rq.kind])

\* A (re)start of the server.  Without --defaults nothing changes; with --defaults the
\* default calendar / addressbook are created *if absent* (empty, with their kind) and an
\* existing collection at a default path - whatever its kind, storage or contents - is left
\* exactly as it is.
RestartOutcome(st, defaults) ==
    IF ~defaults THEN MustSucceed(st)
    ELSE LET new == {c \in Coll : DefaultKind(c) # "" /\ ~Exists(st, c)} IN
         MustSucceed([colls |-> [c \in DOMAIN st.colls \cup new |->
                                    IF c \in new THEN DefaultKind(c) ELSE st.colls[c]],
                      store |-> [c \in DOMAIN st.colls \cup new |->
                                    IF c \in new THEN EmptyFn ELSE st.store[c]],
                      props |-> [c \in DOMAIN st.colls \cup new |->
                                    IF c \in new THEN EmptyFn ELSE st.props[c]]])

\* PROPPATCH: a sequence of instructions  [p, set, v]  (set the property p to v / remove
\* it), processed in document order (RFC 4918 9.2): a later instruction on the same property
\* wins, instructions on different properties do not disturb each other.
\* The server may refuse any individual property (propstat 403/404/409) - which
\* properties a collection kind supports is its business (PropOK documents the
\* usual table and is used by the model checker to generate refusals); what
\* C15 demands is about the instructions it *reports as performed*: rq.ins lists those.
RECURSIVE ApplyInstr(_, _)
ApplyInstr(props, ins) ==
    IF ins = <<>> THEN props
    ELSE LET h == Head(ins) IN
         ApplyInstr(IF h.set THEN Upd(props, h.p, h.v) ELSE Drop(props, h.p), Tail(ins))

ProppatchOutcome(st, rq) ==
    LET c == rq.c IN
    IF ~Exists(st, c)
      THEN MustFail(st, "nocoll", {"notfound", "refused"})
    ELSE MustSucceed([st EXCEPT !.props[c] = ApplyInstr(@, rq.ins)])

(***************************************************************************)
(* Read operators (what a correct server answers in state st).              *)
(***************************************************************************)
\* C07: the change list between an old member map and the current one.
\* Member maps here are functions name |-> validator.
SyncChanged(old, cur) ==
    {n \in DOMAIN cur : n \notin DOMAIN old \/ old[n] # cur[n]}
SyncRemoved(old, cur) == DOMAIN old \ DOMAIN cur
ApplySync(old, cur) ==   \* replica update: result of applying the report to `old'
    LET ch == SyncChanged(old, cur)  rm == SyncRemoved(old, cur) IN
    [n \in (DOMAIN old \ rm) \cup ch |-> IF n \in ch THEN cur[n] ELSE old[n]]

\* C17: answer for one href that designates (c, n) -- independent of the rest.
MultigetOne(st, c, n) ==
    IF IsLive(st, c, n) THEN [found |-> TRUE,  b |-> st.store[c][n]]
                        ELSE [found |-> FALSE, b |-> NoTag]

=============================================================================
