------------------------------ MODULE IndexMgr ------------------------------
(***************************************************************************)
(* Implementation-shaped model (level B) of query evaluation in             *)
(* xandikos.store.Store.iter_with_filter, AutoIndexManager and MemoryIndex  *)
(* and the property C10 (index transparency, level A):                      *)
(*                                                                          *)
(*   the result of every query = { n : Eval(f, store[n]) }                  *)
(*                                                                          *)
(* whatever queries and writes happened before, for every threshold.        *)
(*                                                                          *)
(* Abstraction: a body is a function Key -> set of values (what the file    *)
(* really contains for that index key; {} = absent); a filter has a set of  *)
(* index keys and a predicate over such functions.  Extract(b, k) is what   *)
(* File.get_indexes() records for key k.  With Extract(b, k) = b[k]         *)
(* (assumption IdxSound) the protocol is transparent - TLC checks that; a   *)
(* lossy Extract (first value only) shows which histories expose it.        *)
(***************************************************************************)
EXTENDS Naturals, Sequences, FiniteSets, TLC

CONSTANTS
    Name, Body, Filter, Key,
    KeysOf,        \* Filter -> SUBSET Key
    Threshold,     \* index_threshold
    Content(_),    \* body -> [Key -> SUBSET Values]
    Extract(_, _), \* (body, key) -> recorded value set
    Pred(_, _)     \* (filter, [Key -> SUBSET Values]) -> BOOLEAN

Absent == 0

VARIABLES
    store,     \* name -> body (or Absent)
    desired,   \* key -> how often it was wished for          (AutoIndexManager.desired)
    avail,     \* keys the index is built for                 (MemoryIndex._indexes.keys())
    inIndex,   \* bodies (etags) whose values are in the index (MemoryIndex._in_index)
    vals,      \* <<key, body>> -> recorded values            (MemoryIndex._indexes[k][etag])
    last       \* last query and its result (history variable)
vars == <<store, desired, avail, inIndex, vals, last>>

Live == {n \in Name : store[n] # Absent}
Eval(f, b) == Pred(f, Content(b))
Truth(f) == {n \in Live : Eval(f, store[n])}

Init ==
    /\ store = [n \in Name |-> Absent]
    /\ desired = [k \in Key |-> 0]
    /\ avail = {}
    /\ inIndex = {}
    /\ vals = <<>>
    /\ last = [f |-> "none", got |-> {}, want |-> {}, path |-> "none"]

\* MemoryIndex.get_values: a key without an entry for an indexed etag reads as []
Lookup(v, k, b) == IF <<k, b>> \in DOMAIN v THEN v[<<k, b>>] ELSE {}

\* Store._iter_with_filter_indexes
QueryIndexed(f) ==
    LET keys == KeysOf[f]
        fresh == {store[n] : n \in Live} \ inIndex          \* etags not yet in the index
        \* on a miss the file is read and values for *all available keys* are recorded
        vals2 == [kb \in DOMAIN vals \cup {<<k, b>> : k \in avail, b \in fresh} |->
                    IF kb \in DOMAIN vals /\ kb[2] \notin fresh THEN vals[kb] ELSE Extract(kb[2], kb[1])]
        got == {n \in Live : Pred(f, [k \in Key |-> IF k \in keys THEN Lookup(vals2, k, store[n]) ELSE {}])}
    IN /\ vals' = vals2
       /\ inIndex' = inIndex \cup fresh
       /\ last' = [f |-> f, got |-> got, want |-> Truth(f), path |-> "index"]
       /\ UNCHANGED <<store, desired, avail>>

\* AutoIndexManager.find_present_keys returning None + the naive path
QueryNaive(f) ==
    LET missing == KeysOf[f] \ avail
        d2 == [k \in Key |-> IF k \in missing THEN desired[k] + 1 ELSE desired[k]]
        new == {k \in missing : d2[k] > Threshold}
    IN /\ desired' = d2
       /\ IF new # {}
            THEN avail' = avail \cup new /\ inIndex' = {} /\ vals' = <<>>      \* index.reset(...)
            ELSE UNCHANGED <<avail, inIndex, vals>>
       /\ last' = [f |-> f, got |-> Truth(f), want |-> Truth(f), path |-> "naive"]
       /\ UNCHANGED store

Query(f) == IF KeysOf[f] \subseteq avail THEN QueryIndexed(f) ELSE QueryNaive(f)

Put(n, b) ==
    /\ store' = [store EXCEPT ![n] = b]
    /\ last' = [f |-> "none", got |-> {}, want |-> {}, path |-> "write"]
    /\ UNCHANGED <<desired, avail, inIndex, vals>>
Delete(n) ==
    /\ store[n] # Absent
    /\ store' = [store EXCEPT ![n] = Absent]
    /\ last' = [f |-> "none", got |-> {}, want |-> {}, path |-> "write"]
    /\ UNCHANGED <<desired, avail, inIndex, vals>>

Next ==
    \/ \E f \in Filter : Query(f)
    \/ \E n \in Name, b \in Body : Put(n, b)
    \/ \E n \in Name : Delete(n)
Spec == Init /\ [][Next]_vars

\* C10
Transparent == last.got = last.want

\* structural invariants of the index (conformance targets)
IndexWellFormed ==
    /\ \A kb \in DOMAIN vals : kb[1] \in avail /\ kb[2] \in inIndex
    /\ \A b \in inIndex : \A k \in avail : <<k, b>> \in DOMAIN vals
=============================================================================
