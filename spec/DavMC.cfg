SPECIFICATION Spec
CONSTANTS
  Coll = {"cal1", "ab1"}
  Name = {"a.ics", "b.ics", "c.vcf"}
  Body = {1, 2, 3, 4, 5}
  PropName = {"displayname", "color"}
  Value = {1, 2}
  MaxHist = 5
  MaxInstr = 2
INVARIANT TypeOK
INVARIANT AllStoredValid
INVARIANT UidUnique
INVARIANT TreeIsState
INVARIANT SyncSound
INVARIANT SyncEmptyIsFull
PROPERTY FailureIsNoop
PROPERTY FrameOther
PROPERTY AppendOnly
PROPERTY StartPreserves
PROPERTY CondRespected
PROPERTY CondRespectedMembers
CONSTRAINT StateConstraint
VIEW View
CHECK_DEADLOCK FALSE
