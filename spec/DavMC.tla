------------------------------- MODULE DavMC -------------------------------
(***************************************************************************)
(* Behaviours of Dav.tla: variables, actions, theorems of the property-     *)
(* level model, and the alphabets used to generate histories that are       *)
(* replayed against the real server (spec -> code).                         *)
(*                                                                          *)
(* Body alphabet (concretised by harness/gamma.py):                         *)
(*   1  valid ics, UID u1, text A        4  invalid ics (broken)            *)
(*   2  valid ics, UID u1, text B        5  valid vcf                       *)
(*   3  valid ics, UID u2                6  valid vcf, other text           *)
(*   7  valid ics without UID-bearing difference: UID u3                    *)
(* Name alphabet: "a.ics" "b.ics" "c.vcf"                                   *)
(***************************************************************************)
EXTENDS Naturals, Sequences, FiniteSets, TLC, SequencesExt

CONSTANTS Coll, Name, Body, PropName, Value, MaxHist, MaxInstr

BValid(b) == b # 4
BUid(b)   == CASE b = 1 -> "u1" [] b = 2 -> "u1" [] b = 3 -> "u2"
                 [] b = 7 -> "u3" [] OTHER -> ""
BKind(b)  == IF b \in {5, 6} THEN "vcf" ELSE "ics"
NKind(n)  == IF n = "c.vcf" THEN "vcf" ELSE "ics"
DefaultKind(c) == IF c = "cal1" THEN "calendar" ELSE IF c = "ab1" THEN "addressbook" ELSE ""
PropOK(k, p) ==
    CASE p = "displayname" -> TRUE
      [] p = "color"       -> k \in {"calendar", "addressbook"}
      [] p = "description" -> k \in {"calendar", "addressbook"}
      [] p = "order"       -> k = "calendar"
      [] OTHER             -> FALSE

INSTANCE Dav

VARIABLES
    st,      \* abstract server state (Dav!InitSt shape)
    hist,    \* collection |-> sequence of snapshots (one per commit)
    rq,      \* the request of the last step (history variable: what to replay)
    resp,    \* class of the last response: "ok" or a failure class
    env      \* what the environment does to the server: [locked : collections whose index lock
             \* somebody else holds (another writer, a crashed one), full : the disk is full]
vars == <<st, hist, rq, resp, env>>

\* validator of (c, n) in the abstract model: the stored body itself
CurTag(c, n) == IF IsLive(st, c, n) THEN st.store[c][n] ELSE NoTag

\* conditional-header alphabet relative to the current state (C03):
\* absent, *, current, a stale/other validator, {other, current} list, and a header that is
\* present but lists nothing (an empty value).
Conds(c, n) ==
    LET cur == CurTag(c, n)
        oth == CHOOSE b \in Body : b # cur
    IN  {NoCond,
         [present |-> TRUE, star |-> TRUE,  tags |-> {}],
         [present |-> TRUE, star |-> FALSE, tags |-> {}],
         [present |-> TRUE, star |-> FALSE, tags |-> {oth}]}
        \cup (IF cur = NoTag THEN {}
              ELSE {[present |-> TRUE, star |-> FALSE, tags |-> {cur}],
                    [present |-> TRUE, star |-> FALSE, tags |-> {oth, cur}]})

NoRq == [op |-> "Init"]
NoEnv == [locked |-> {}, full |-> FALSE]

Init ==
    /\ st = InitSt
    /\ hist = EmptyFn
    /\ rq = NoRq
    /\ resp = "ok"
    /\ env = NoEnv

\* Apply an outcome: the server either does what it must, or (when it must
\* fail) answers with one of the admissible classes and changes nothing.
Apply(o, c) ==
    IF o.must = "succeed"
      THEN /\ st' = o.st
           /\ resp' = "ok"
           /\ hist' = IF c \in DOMAIN o.st.colls
                        THEN IF c \in DOMAIN hist /\ Snapshot(o.st, c) = Last(hist[c])
                               THEN hist
                               ELSE Upd(hist, c, (IF c \in DOMAIN hist THEN hist[c] ELSE <<>>)
                                                  \o <<Snapshot(o.st, c)>>)
                        ELSE Drop(hist, c)
      ELSE /\ o.fail # {}
           /\ resp' \in o.fail
           /\ UNCHANGED <<st, hist>>

\* a write that meets a held lock or a full disk may go through (not every back end takes that
\* lock; a full disk still has room for some writes) or is refused - then without any effect
EnvRefuse(c) ==
    /\ \/ c \in env.locked /\ resp' = "locked"
       \/ env.full /\ resp' = "error"
    /\ UNCHANGED <<st, hist>>
ApplyE(o, c) == UNCHANGED env /\ (Apply(o, c) \/ EnvRefuse(c))

Put(c, n, b, im, inm) ==
    /\ NKind(n) = BKind(b)
    /\ rq' = [op |-> "Put", c |-> c, n |-> n, b |-> b, im |-> im, inm |-> inm]
    /\ ApplyE(PutOutcome(st, rq', CurTag(c, n)), c)

Post(c, n, b) ==
    /\ NKind(n) = BKind(b)
    /\ ~IsLive(st, c, n)
    /\ rq' = [op |-> "Post", c |-> c, n |-> n, b |-> b]
    /\ ApplyE(PostOutcome(st, rq'), c)

Delete(c, n, im) ==
    /\ rq' = [op |-> "Delete", c |-> c, n |-> n, im |-> im]
    /\ ApplyE(DeleteOutcome(st, rq', CurTag(c, n)), c)

Mk(c, k) ==
    /\ rq' = [op |-> "Mk", c |-> c, kind |-> k]
    /\ ApplyE(MkOutcome(st, rq'), c)

\* the validator of a collection is (a function of) its snapshot; 1 stands for "the current
\* one", 2 for any other value
CollConds == {NoCond, [present |-> TRUE, star |-> TRUE, tags |-> {}],
              [present |-> TRUE, star |-> FALSE, tags |-> {1}], [present |-> TRUE, star |-> FALSE, tags |-> {2}],
              [present |-> TRUE, star |-> FALSE, tags |-> {1, 2}]}
DeleteColl(c, im) ==
    /\ rq' = [op |-> "DeleteColl", c |-> c, im |-> im]
    /\ ApplyE(DeleteCollOutcome(st, rq', IF Exists(st, c) THEN 1 ELSE NoTag), c)

\* one PROPPATCH request: a sequence of 1..MaxInstr instructions, in document order; the
\* instructions on properties the collection kind does not support are refused individually
Instr == [p : PropName, set : BOOLEAN, v : Value]
InstrSeqs == UNION {[1..k -> Instr] : k \in 1..MaxInstr}
Proppatch(c, ins) ==
    /\ rq' = [op |-> "Proppatch", c |-> c, ins |-> ins]
    /\ LET done == IF Exists(st, c) THEN SelectSeq(ins, LAMBDA x : PropOK(st.colls[c], x.p)) ELSE ins IN
       IF Exists(st, c) /\ done = <<>>
         THEN resp' = "refused" /\ UNCHANGED <<st, hist, env>>      \* per-property refusal
         ELSE ApplyE(ProppatchOutcome(st, [c |-> c, ins |-> done]), c)

Retype(c, k) ==
    /\ rq' = [op |-> "Retype", c |-> c, kind |-> k]
    /\ ApplyE(RetypeOutcome(st, rq'), c)

Restart(defaults) ==
    /\ rq' = [op |-> "Restart", defaults |-> defaults]
    /\ resp' = "ok"
    /\ env' = [env EXCEPT !.full = FALSE]      \* (the administrator made room before starting it)
    /\ LET o == RestartOutcome(st, defaults)
           new == DOMAIN o.st.colls \ DOMAIN st.colls IN
       /\ st' = o.st
       /\ hist' = [c \in DOMAIN hist \cup new |-> IF c \in new THEN <<Snapshot(o.st, c)>> ELSE hist[c]]

\* environment actions
Lock(c) ==
    /\ Exists(st, c) /\ c \notin env.locked
    /\ rq' = [op |-> "Lock", c |-> c] /\ resp' = "ok"
    /\ env' = [env EXCEPT !.locked = @ \cup {c}] /\ UNCHANGED <<st, hist>>
Unlock(c) ==
    /\ c \in env.locked
    /\ rq' = [op |-> "Unlock", c |-> c] /\ resp' = "ok"
    /\ env' = [env EXCEPT !.locked = @ \ {c}] /\ UNCHANGED <<st, hist>>
DiskFull(on) ==
    /\ env.full # on
    /\ rq' = [op |-> "DiskFull", on |-> on] /\ resp' = "ok"
    /\ env' = [env EXCEPT !.full = on] /\ UNCHANGED <<st, hist>>

Next ==
    \/ \E c \in Coll : Lock(c) \/ Unlock(c)
    \/ \E on \in BOOLEAN : DiskFull(on)
    \/ \E c \in Coll, n \in Name, b \in Body :
         \E im \in Conds(c, n), inm \in Conds(c, n) :     \* also both headers on one request
            Put(c, n, b, im, inm)
    \/ \E c \in Coll, n \in Name, b \in Body : Post(c, n, b)
    \/ \E c \in Coll, n \in Name : \E im \in Conds(c, n) : Delete(c, n, im)
    \/ \E c \in Coll, k \in Kinds : Mk(c, k)
    \/ \E c \in Coll, im \in CollConds : DeleteColl(c, im)
    \/ \E c \in Coll, ins \in InstrSeqs : Proppatch(c, ins)
    \/ \E c \in Coll, k \in Kinds \cup {""} : Retype(c, k)
    \/ \E d \in BOOLEAN : Restart(d)

Spec == Init /\ [][Next]_vars

\* simulation starts from a deployment where the usual collections exist
\* (the replay harness creates them first), so that random walks spend their
\* steps on members rather than on 404s
SimSt == [colls |-> [c \in Coll |-> IF c = "ab1" THEN "addressbook" ELSE "calendar"],
          store |-> [c \in Coll |-> EmptyFn],
          props |-> [c \in Coll |-> EmptyFn]]
InitSim ==
    /\ st = SimSt
    /\ hist = [c \in Coll |-> <<Snapshot(SimSt, c)>>]
    /\ rq = NoRq
    /\ resp = "ok"
    /\ env = NoEnv
SpecSim == InitSim /\ [][Next]_vars

----------------------------------------------------------------------------
(* Theorems of the property-level model (checked by TLC, one per clause)   *)

TypeOK ==
    /\ DOMAIN st.colls \subseteq Coll
    /\ DOMAIN st.store = DOMAIN st.colls
    /\ DOMAIN st.props = DOMAIN st.colls
    /\ env.locked \subseteq Coll /\ env.full \in BOOLEAN
    /\ \A c \in DOMAIN st.colls :
          /\ st.colls[c] \in Kinds
          /\ DOMAIN st.store[c] \subseteq Name
          /\ \A n \in DOMAIN st.store[c] : st.store[c][n] \in Body
          /\ DOMAIN st.props[c] \subseteq PropName

\* C14: only well-formed bodies are ever stored
AllStoredValid == \A c \in DOMAIN st.colls : \A n \in Live(st, c) : BValid(st.store[c][n])

\* C06: UIDs unique within a collection
UidUnique ==
    \A c \in DOMAIN st.colls : \A n, m \in Live(st, c) :
        (n # m /\ BKind(st.store[c][n]) = "ics" /\ BKind(st.store[c][m]) = "ics"
               /\ BUid(st.store[c][n]) # NoUid)
            => BUid(st.store[c][n]) # BUid(st.store[c][m])

\* C09: the head snapshot is the current state
TreeIsState ==
    \A c \in DOMAIN st.colls : c \in DOMAIN hist /\ Last(hist[c]) = Snapshot(st, c)

\* C01: a failed request changes nothing; a write changes only its target
FailureIsNoop == [][resp' # "ok" => UNCHANGED <<st, hist>>]_vars
FrameOther ==
    [][\A c \in DOMAIN st.colls \cap DOMAIN st'.colls :
          /\ (st'.store[c] # st.store[c] =>
                /\ rq'.op \in {"Put", "Post", "Delete"} /\ rq'.c = c
                /\ \A n \in (DOMAIN st.store[c] \cup DOMAIN st'.store[c]) \ {rq'.n} :
                      /\ (n \in DOMAIN st.store[c]) = (n \in DOMAIN st'.store[c])
                      /\ n \in DOMAIN st.store[c] => st'.store[c][n] = st.store[c][n])
          /\ (st'.props[c] # st.props[c] => rq'.op = "Proppatch" /\ rq'.c = c)]_vars

\* C01/C18: a restart leaves every existing collection exactly as it is; with --defaults it
\* only adds the missing default collections, empty
StartPreserves ==
    [][rq'.op = "Restart" =>
         /\ \A c \in DOMAIN st.colls :
               /\ c \in DOMAIN st'.colls /\ st'.colls[c] = st.colls[c]
               /\ st'.store[c] = st.store[c] /\ st'.props[c] = st.props[c] /\ hist'[c] = hist[c]
         /\ \A c \in DOMAIN st'.colls \ DOMAIN st.colls :
               rq'.defaults /\ st'.colls[c] = DefaultKind(c) /\ st'.store[c] = EmptyFn]_vars

\* C09: history is append-only, one snapshot per change, none for no-ops
AppendOnly ==
    [][\A c \in DOMAIN hist \cap DOMAIN hist' :
          (rq'.op # "DeleteColl" /\ ~(rq'.op = "Mk" /\ resp' = "ok" /\ rq'.c = c)) =>
            /\ IsPrefix(hist[c], hist'[c])
            /\ Len(hist'[c]) - Len(hist[c]) =
                  (IF Snapshot(st', c) # Snapshot(st, c) THEN 1 ELSE 0)]_vars

\* C03: a state-changing conditional request had a satisfied condition
CondRespected ==
    [][(rq'.op = "DeleteColl" /\ resp' = "ok" /\ rq'.im.present => (rq'.im.star \/ 1 \in rq'.im.tags))]_vars
CondRespectedMembers ==
    [][(rq'.op \in {"Put", "Delete"} /\ resp' = "ok") =>
          LET cur == CurTag(rq'.c, rq'.n) IN
          /\ (rq'.im.present => CondMatches(rq'.im, cur))
          /\ (rq'.op = "Put" /\ rq'.inm.present => ~CondMatches(rq'.inm, cur))]_vars

\* C07: applying the change list computed between any two snapshots of a
\* collection to the older one yields the newer one.
SyncSound ==
    \A c \in DOMAIN hist : \A i, j \in DOMAIN hist[c] :
        i <= j => ApplySync(hist[c][i].m, hist[c][j].m) = hist[c][j].m
SyncEmptyIsFull ==
    \A c \in DOMAIN hist : ApplySync(EmptyFn, Last(hist[c]).m) = Last(hist[c]).m

\* C08 (git): the snapshot is a function of the state, so equal contents
\* give equal tags and distinct contents distinct tags when Tag == identity.

StateConstraint ==
    /\ TLCGet("level") <= MaxHist

\* hide the history variable rq and resp so exhaustive runs do not multiply states
View == <<st, hist>>
=============================================================================
