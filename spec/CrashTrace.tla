----------------------------- MODULE CrashTrace -----------------------------
(***************************************************************************)
(* C04, property level, evaluated on real crash images (code -> spec).      *)
(*                                                                          *)
(* Input: for every recorded store operation the visible state before it    *)
(* (pre), after it (final), and one observation per crash image: the store  *)
(* directory as it was just before the k-th file-system mutation of the     *)
(* operation (and torn variants), re-opened and read completely by the      *)
(* real code.                                                               *)
(*                                                                          *)
(*   CrashAtomic : image state = pre or final, as a whole                   *)
(*   Opens       : the image opens, every listed member reads back          *)
(*   RefsClosed  : git fsck finds no reference to a missing object          *)
(*   AckedDurable: the final state is what the acknowledged operation says  *)
(***************************************************************************)
EXTENDS Naturals, Sequences, FiniteSets, TLC, Json, IOUtils, TLCExt

File == JsonDeserialize(IOEnv.TRACE_FILE)
Ops  == File.ops
CONSTANT EnabledDevs

VARIABLES oid, done
vars == <<oid, done>>

Upd(f, k, v) == [x \in DOMAIN f \cup {k} |-> IF x = k THEN v ELSE f[x]]
Drop(f, k)   == [x \in DOMAIN f \ {k} |-> f[x]]
St(o) == [vis |-> o.vis, props |-> o.props]

\* is `final' a correct outcome of the acknowledged operation applied to `pre'?
FinalOK(op) ==
    LET pre == op.pre  fin == op.final IN
    /\ fin.opens /\ fin.readable /\ fin.fsck
    /\ CASE op.t = "put" ->
              /\ op.n \in DOMAIN fin.vis /\ fin.vis[op.n] # 0
              /\ Drop(fin.vis, op.n) = Drop(pre.vis, op.n)
              /\ fin.props = pre.props
         [] op.t = "del" ->
              /\ op.n \notin DOMAIN fin.vis
              /\ fin.vis = Drop(pre.vis, op.n)
              /\ fin.props = pre.props
         [] OTHER ->     \* property set
              /\ fin.vis = pre.vis
              /\ fin.props = Upd(pre.props, op.n, op.expect)

Dev(op, clause, gate) == "crash:" \o op.kind \o ":" \o op.t \o ":" \o clause \o ":" \o gate

Judge(op) ==
    (IF op.oper_error # "" \/ ~FinalOK(op)
       THEN {[id |-> op.id, k |-> 0, clause |-> "acknowledged-write-not-in-effect", dev |-> Dev(op, "final", "-"),
              torn |-> "", err |-> op.oper_error]}
       ELSE {})
    \cup
    UNION {
      LET im == op.images[j]  o == im.obs
          retry == im.torn = "retry"
          clause ==
             \* the request repeated after the restart: acknowledged -> in effect (the final state of
             \* the uninterrupted operation); refused -> old or new state
             IF retry /\ o.opens /\ o.readable /\ o.fsck /\ im.rerr = "" /\ St(o) # St(op.final)
               THEN "repeated-request-acknowledged-but-not-in-effect"
             ELSE IF retry /\ o.opens /\ o.readable /\ o.fsck /\ im.rerr = "" THEN "ok"
             ELSE IF ~o.opens THEN "does-not-open"
             ELSE IF ~o.readable THEN "member-unreadable"
             ELSE IF ~o.fsck THEN "reference-to-missing-object"
             ELSE IF St(o) \notin {St(op.pre), St(op.final)} THEN
                  (IF op.t # "prop" /\ Drop(o.vis, op.n) # Drop(op.pre.vis, op.n)
                     THEN "other-resource-changed" ELSE "neither-old-nor-new")
             ELSE "ok"
      IN IF clause = "ok" THEN {}
         ELSE {[id |-> op.id, k |-> im.k, clause |-> clause,
                dev |-> Dev(op, clause, IF im.torn = "" THEN im.gate ELSE IF retry THEN "retry" ELSE "torn"),
                torn |-> im.torn, err |-> o.err]}
      : j \in DOMAIN op.images }

Verdicts(op) ==
    { [v EXCEPT !.clause = v.clause] @@ [kind |-> IF v.dev \in EnabledDevs THEN "known" ELSE "viol"]
        : v \in Judge(op) }

\* Restart under another locale (a service started with LANG=C): File.locale[i] =
\*   [kind, res (per operation: "" acknowledged / exception name), final (what the restarted
\*    process reads), want_props, want_names]  - every acknowledged write is present, every
\* refused one left nothing, the collection opens and reads completely
JudgeLocale(r, i) ==
    LET f == r.final
        clause ==
           IF ~f.opens THEN "does-not-open"
           ELSE IF ~f.readable THEN "member-unreadable"
           ELSE IF ~f.fsck THEN "reference-to-missing-object"
           ELSE IF f.props # r.want_props THEN "property-differs-from-the-acknowledged-writes"
           ELSE IF DOMAIN f.vis # {r.want_names[k] : k \in DOMAIN r.want_names} THEN "members-differ-from-the-acknowledged-writes"
           ELSE "ok"
        dev == "crash:" \o r.kind \o ":restart-under-another-locale:" \o clause
    IN IF clause = "ok" THEN {}
       ELSE {[id |-> 100000 + i, k |-> 0, clause |-> clause, dev |-> dev, torn |-> "", err |-> f.err,
              kind |-> IF dev \in EnabledDevs THEN "known" ELSE "viol"]}
LocaleVerdicts == IF "locale" \in DOMAIN File THEN UNION {JudgeLocale(File.locale[i], i) : i \in DOMAIN File.locale} ELSE {}

Init == oid \in DOMAIN Ops /\ done = FALSE /\ TLCSet(1, LocaleVerdicts)
Next == /\ ~done
        /\ TLCSet(1, TLCGet(1) \cup Verdicts(Ops[oid]))
        /\ done' = TRUE /\ UNCHANGED oid
Spec == Init /\ [][Next]_vars
Done == JsonSerialize(IOEnv.RESULT_FILE, [results |-> TLCGet(1)])
=============================================================================
