---------------------------- MODULE StoreProtoMC ----------------------------
(* Model-checking configurations of StoreProto: program sets.               *)
EXTENDS Naturals, Sequences, FiniteSets, TLC

CONSTANTS Kind, Proc, Mode     \* Mode: "crash" (one writer, sequences) | "race" (two writers, one op each)

Names == {"a", "b"}
Conts == {1, 2, 3}             \* 1 and 2 share UID 7; 3 has UID 8
UidOf == [c \in {1, 2, 3, 4, 99} |-> CASE c = 1 -> 7 [] c = 2 -> 7 [] c = 3 -> 8 [] OTHER -> 0]
Init0 == [n \in {"a"} |-> 1]   \* one resource exists initially: "a" with content 1

PutOps == {[t |-> "put", n |-> n, b |-> b, cond |-> c] : n \in Names, b \in Conts, c \in {0, 1, 2}}
DelOps == {[t |-> "del", n |-> n, b |-> 0, cond |-> c] : n \in Names, c \in {0, 1, 2}}
CfgOps == {[t |-> "cfg", n |-> "cfg", b |-> b, cond |-> 0] : b \in {4}}
AllOps == PutOps \cup DelOps \cup CfgOps

Seqs(S, k) == UNION {[1..j -> S] : j \in 1..k}

ProgSet ==
    IF Mode = "crash"
      THEN {[p \in Proc |-> s] : s \in Seqs(AllOps, 2)}
      ELSE [Proc -> {<<o>> : o \in PutOps \cup DelOps}]

VARIABLES objs, ref, refLock, index, indexLock, work, tmp, pc, loc, Prog, opi, results
INSTANCE StoreProto
=============================================================================
