---------------------------- MODULE PathMapTrace ----------------------------
(* C13: judges the recorded file-system behaviour of adversarial requests.   *)
EXTENDS Naturals, Sequences, FiniteSets, TLC, Json, IOUtils, TLCExt
INSTANCE PathMap

File == JsonDeserialize(IOEnv.TRACE_FILE)
CONSTANT EnabledDevs

Shape(r) ==
    IF "ABS" \in {r.segs[i] : i \in DOMAIN r.segs} THEN "absolute-outside-path"
    ELSE IF RawEscapes(r.segs) THEN "dot-dot-above-root"
    ELSE IF \E i \in DOMAIN r.segs : r.segs[i] \in {".", "..", ""} THEN "dot-segments-inside-root"
    ELSE "plain"

\* "ABS" and "OUT" stand for several path segments each: a ".." after one of them removes only
\* the last of those, which Norm (one token = one segment) cannot express - for such targets
\* only the safety clauses are judged
MultiThenDotDot(s) == \E a, b \in DOMAIN s : a < b /\ s[a] \in {"ABS", "OUT"} /\ s[b] = ".."

Judge(r, i) ==
    LET clauses ==
          (IF r.outside_events > 0 THEN {"touches-file-system-outside-root"} ELSE {})
          \cup (IF r.outside_changed THEN {"changes-file-system-outside-root"} ELSE {})
          \cup (IF r.root_removed THEN {"removes-the-data-root"} ELSE {})
          \cup (IF r.leak THEN {"serves-content-from-outside-root"} ELSE {})
          \* an href with two or more leading slashes inside a report body is a network-path
          \* reference (RFC 3986 4.2): its first segment is an authority, not a path segment
          \cup (IF Safe(r) /\ ~r.leak /\ ~AsNormalised(r) /\ r.norm = Norm(r.segs) /\ ~MultiThenDotDot(r.segs)
                   /\ ~(r.method = "MULTIGET" /\ r.netpath)
                   \* a Slug header is a naming hint the server may ignore: only safety applies
                   \* (so is the UID inside an uploaded body)
                   /\ r.method \notin {"SLUG", "UIDNAME"}
                  THEN {"not-answered-as-the-normalised-path"} ELSE {})
    IN {[k |-> IF d \in EnabledDevs THEN "known" ELSE "viol", i |-> i, dev |-> d] :
          d \in {"path:" \o r.method \o ":" \o Shape(r) \o ":" \o c : c \in clauses}}

VARIABLES idx, done
vars == <<idx, done>>
Init == idx \in DOMAIN File.recs /\ done = FALSE /\ TLCSet(1, {})
Next == /\ ~done
        /\ TLCSet(1, TLCGet(1) \cup Judge(File.recs[idx], idx))
        /\ done' = TRUE /\ UNCHANGED idx
Spec == Init /\ [][Next]_vars
Done == JsonSerialize(IOEnv.RESULT_FILE, [results |-> TLCGet(1)])
=============================================================================
