--------------------------- MODULE CalQueryTrace ---------------------------
(***************************************************************************)
(* C11: judges observed calendar-query results (code -> spec) by            *)
(* re-evaluating the CalQuery operators on the coordinates of each case.    *)
(* A wrong verdict is identified by its table coordinates:                  *)
(*   time:<KIND>:<row>:<relations of S and E to the row's values>:<dir>     *)
(*   filter:<shape>:<dir>            dir = missed | extra | error           *)
(***************************************************************************)
EXTENDS Naturals, Integers, Sequences, FiniteSets, TLC, Json, IOUtils, TLCExt

S == 2
E == 4
D1 == 2
INSTANCE CalQuery

File == JsonDeserialize(IOEnv.TRACE_FILE)
CONSTANT EnabledDevs

Cmp(a, b) == IF a < b THEN "<" ELSE IF a = b THEN "=" ELSE ">"
Rel(name, v) == IF Has(v) THEN "[S" \o Cmp(S, v) \o name \o ",E" \o Cmp(E, v) \o name \o "]" ELSE ""

Row(c) ==
    CASE c.kind = "VEVENT" ->
            IF Has(c.dtend) THEN "dtend" ELSE IF Has(c.dur) /\ c.dur > 0 THEN "dur>0"
            ELSE IF Has(c.dur) THEN "dur=0" ELSE IF c.isdate THEN "date" ELSE "datetime"
      [] c.kind = "VTODO" ->
            IF Has(c.dtstart) /\ Has(c.dur) THEN "dtstart+dur"
            ELSE IF Has(c.dtstart) /\ Has(c.due) THEN "dtstart+due"
            ELSE IF Has(c.dtstart) THEN "dtstart"
            ELSE IF Has(c.due) THEN "due"
            ELSE IF Has(c.completed) /\ Has(c.created) THEN "completed+created"
            ELSE IF Has(c.completed) THEN "completed"
            ELSE IF Has(c.created) THEN "created" ELSE "none"
      [] c.kind = "VJOURNAL" -> IF ~Has(c.dtstart) THEN "none" ELSE IF c.isdate THEN "date" ELSE "datetime"
      [] OTHER -> IF Has(c.dtstart) THEN "dtstart+dtend" ELSE IF Has(c.fbstart) THEN "freebusy" ELSE "none"

\* the values the row's condition looks at, in relation to the query range
Sig(c) ==
    LET endv == IF Has(c.dtend) THEN c.dtend
                ELSE IF Has(c.dur) /\ Has(c.dtstart) THEN c.dtstart + c.dur
                ELSE IF c.isdate /\ Has(c.dtstart) THEN c.dtstart + D1 ELSE NoVal
    IN  Rel("start", c.dtstart) \o Rel("end", endv) \o Rel("due", c.due)
        \o (IF c.kind = "VTODO" /\ ~Has(c.dtstart) /\ ~Has(c.due)
              THEN Rel("completed", c.completed) \o Rel("created", c.created) ELSE "")
        \o Rel("fbs", c.fbstart) \o Rel("fbe", c.fbend)

JudgeTime(r, i) ==
    LET want == Overlaps(r.c.kind, r.c)
        dir == IF r.err # "" THEN "error" ELSE IF want /\ ~r.got THEN "missed" ELSE "extra"
        dev == "time:" \o r.c.kind \o ":" \o Row(r.c) \o ":" \o Sig(r.c) \o ":" \o dir
    IN IF ~r.stored THEN {[k |-> "note", i |-> i, t |-> "time", dev |-> "not-stored", want |-> want]}
       ELSE IF r.err = "" /\ r.got = want THEN {}
       ELSE {[k |-> IF dev \in EnabledDevs THEN "known" ELSE "viol", i |-> i, t |-> "time", dev |-> dev, want |-> want]}

B(x, s) == IF x THEN s ELSE ""
Shape(f) ==
    IF f.cnd THEN "comp-is-not-defined"
    ELSE IF f.prop = "" THEN "comp-defined"
    ELSE f.prop \o B(f.pnd, "-is-not-defined")
         \o B(f.tm.on, "-text-match(" \o f.tm.needle \o "," \o f.tm.coll \o B(f.tm.neg, ",negate") \o ")")
         \o B(f.param # "", "-param" \o B(f.qnd, "-is-not-defined")
              \o B(f.ptm.on, "-text-match(" \o f.ptm.needle \o "," \o f.ptm.coll \o B(f.ptm.neg, ",negate") \o ")"))

\* how the needle of the (property or parameter) text-match relates to the values of the object
TmRel(tm, v) ==
    LET n == IF tm.coll = "i;octet" THEN tm.needle ELSE Upper(tm.needle)
        w == IF tm.coll = "i;octet" THEN v ELSE Upper(v)
    IN IF v = "" THEN "absent" ELSE IF n = w THEN "equal" ELSE IF Sub(n, w) THEN "proper-substring" ELSE "unrelated"
Rels(f, obj) ==
    LET cs == {c \in obj : c.kind = f.comp} IN
    IF f.tm.on THEN {TmRel(f.tm, PropValue(c, f.prop)) : c \in cs}
    ELSE IF f.ptm.on THEN {TmRel(f.ptm, ParamValue(c)) : c \in cs} ELSE {}
RelName(rs) ==
    IF "proper-substring" \in rs THEN ":value-properly-contains-needle"
    ELSE IF "equal" \in rs THEN ":value-equals-needle" ELSE ""

JudgeFilter(r, i) ==
    LET obj == {r.obj[j] : j \in DOMAIN r.obj}
        want == ObjMatches(r.f, obj)
        dir == IF r.err # "" THEN "error" ELSE IF want /\ ~r.got THEN "missed" ELSE "extra"
        \* an object with several components of the filtered type, answered from the index from
        \* the first query on (the index keeps one merged list of values per object)
        several == Cardinality({j \in DOMAIN r.obj : r.obj[j].kind = r.f.comp}) >= 2
        fromidx == "thr" \in DOMAIN r /\ r.thr = "index" /\ several
                   /\ "proper-substring" \notin Rels(r.f, obj)
        dev == "filter:" \o Shape(r.f) \o RelName(Rels(r.f, obj))
               \o B(fromidx, ":several-components:answered-from-index") \o ":" \o dir
    IN IF r.err = "" /\ r.got = want THEN {}
       ELSE {[k |-> IF dev \in EnabledDevs THEN "known" ELSE "viol", i |-> i, t |-> "filter", dev |-> dev, want |-> want]}

\* free-busy-query (extension, reported as note): r = [c, transp, status, got (<<start, end>> or <<-1,-1>>), err]
JudgeFb(r, i) ==
    LET want == BusyPeriod(r.c, r.transp, r.status) IN
    IF r.err = "" /\ <<r.got[1], r.got[2]>> = want THEN {}
    ELSE {[k |-> "ext", i |-> i, t |-> "fb",
           dev |-> "freebusy:" \o Row(r.c) \o ":" \o r.transp \o ":" \o r.status \o ":" \o
                   (IF r.err # "" THEN "error" ELSE IF want = NoPeriod THEN "extra" ELSE IF r.got[1] = NoVal THEN "missing" ELSE "wrong-period"),
           want |-> want # NoPeriod]}

VARIABLES which, idx, done
vars == <<which, idx, done>>
Init == /\ \/ which = "time" /\ idx \in DOMAIN File.time
           \/ which = "filter" /\ idx \in DOMAIN File.filters
           \/ which = "fb" /\ idx \in DOMAIN File.fb
        /\ done = FALSE /\ TLCSet(1, {})
Next == /\ ~done
        /\ TLCSet(1, TLCGet(1) \cup (CASE which = "time" -> JudgeTime(File.time[idx], idx)
                                         [] which = "filter" -> JudgeFilter(File.filters[idx], idx)
                                         [] OTHER -> JudgeFb(File.fb[idx], idx)))
        /\ done' = TRUE /\ UNCHANGED <<which, idx>>
Spec == Init /\ [][Next]_vars
Done == JsonSerialize(IOEnv.RESULT_FILE, [results |-> TLCGet(1)])
=============================================================================
