--------------------------- MODULE CardQueryTrace ---------------------------
(* C12: judges observed addressbook-query results by re-evaluating CardQuery. *)
EXTENDS Naturals, Sequences, FiniteSets, TLC, Json, IOUtils, TLCExt
INSTANCE CardQuery

File == JsonDeserialize(IOEnv.TRACE_FILE)
CONSTANT EnabledDevs
Range(s) == {s[i] : i \in DOMAIN s}

\* relation of needle and value under the collation the RFC prescribes
Rel(tm, v) ==
    LET n == Fold(tm.coll, tm.needle)  w == Fold(tm.coll, v)
        raw == IF tm.needle = v THEN "" ELSE IF n = w THEN "~" ELSE ""      \* ~ : equal only after folding
    IN IF n = w THEN raw \o "equal"
       ELSE IF IsPrefixOf(n, w) /\ IsSuffixOf(n, w) THEN "prefix+suffix"
       ELSE IF IsPrefixOf(n, w) THEN "prefix"
       ELSE IF IsSuffixOf(n, w) THEN "suffix"
       ELSE IF IsSubstrOf(n, w) THEN "infix"
       ELSE "unrelated"
NonAscii(s) == \E i \in DOMAIN s : s[i] \in {"e'", "E'"}

TmName(tm) == tm.type \o "," \o tm.coll \o (IF tm.neg THEN ",negate" ELSE "")

\* table A: r = [tm, got (seq of values), err]
JudgeA(r, i) ==
    LET want == {v \in Range(File.values) : TextMatch(r.tm, v)}
        got == Range(r.got)
        errdev == "card:text-match(" \o TmName(r.tm) \o "):error"
    IN IF r.err # "" THEN {[k |-> IF errdev \in EnabledDevs THEN "known" ELSE "viol", t |-> "a", i |-> i, dev |-> errdev, v |-> <<>>]}
       ELSE {[k |-> IF d \in EnabledDevs THEN "known" ELSE "viol", t |-> "a", i |-> i, dev |-> d, v |-> <<>>] :
               d \in {"card:text-match(" \o TmName(r.tm) \o "):" \o Rel(r.tm, v)
                        \o (IF NonAscii(v) \/ NonAscii(r.tm.needle) THEN ":non-ascii" ELSE "")
                        \o (IF v \in want THEN ":missed" ELSE ":extra")
                        : v \in {x \in (want \ got) \cup (got \ want) :
                                   ~(r.tm.coll = "i;unicode-casemap" /\ HasSpecial(x))}}}

PfName(pf) ==
    pf.name \o (IF pf.nd THEN "-is-not-defined" ELSE "") \o "[" \o pf.test \o "]"
    \o (IF pf.tms # <<>> THEN "-tm" \o ToString(Len(pf.tms)) \o (IF \E j \in DOMAIN pf.tms : pf.tms[j].neg THEN "neg" ELSE "") ELSE "")
    \o (IF pf.par # <<>> THEN "-param" \o (IF pf.par[1].nd THEN "-is-not-defined" ELSE IF pf.par[1].tm.on THEN "-tm" ELSE "-defined") ELSE "")
FName(f) ==
    IF f.pfs = <<>> THEN "empty"
    ELSE f.test \o "(" \o PfName(f.pfs[1]) \o (IF Len(f.pfs) > 1 THEN ";" \o PfName(f.pfs[2]) ELSE "") \o ")"

\* table B: r = [f, got (seq of BOOLEAN per card), err, extra (hrefs that are no card)]
JudgeB(r, i) ==
    LET want == [j \in DOMAIN File.cards |-> CardMatches(r.f, File.cards[j])]
        dev == "card:filter:" \o FName(r.f) \o ":" \o
               (IF r.err # "" THEN "error"
                ELSE IF r.extra > 0 THEN "returns-non-card"
                ELSE IF \E j \in DOMAIN want : want[j] /\ ~r.got[j] THEN "missed" ELSE "extra")
    IN IF r.err = "" /\ r.extra = 0 /\ r.got = want THEN {}
       ELSE {[k |-> IF dev \in EnabledDevs THEN "known" ELSE "viol", t |-> "b", i |-> i, dev |-> dev, v |-> want]}

\* limit: r = [n, total (matching without limit), got (number of responses), err]
JudgeL(r, i) ==
    LET want == IF r.n < r.total THEN r.n ELSE r.total
        dev == "card:limit:" \o (IF r.err # "" THEN "error" ELSE IF r.got > want THEN "too-many" ELSE "too-few") IN
    IF r.err = "" /\ r.got = want /\ r.subset THEN {}
    ELSE {[k |-> IF dev \in EnabledDevs THEN "known" ELSE "viol", t |-> "l", i |-> i, dev |-> dev, v |-> <<>>]}

VARIABLES which, idx, done
vars == <<which, idx, done>>
Init == /\ \/ which = "a" /\ idx \in DOMAIN File.a
           \/ which = "b" /\ idx \in DOMAIN File.b
           \/ which = "l" /\ idx \in DOMAIN File.l
        /\ done = FALSE /\ TLCSet(1, {})
Next == /\ ~done
        /\ TLCSet(1, TLCGet(1) \cup (CASE which = "a" -> JudgeA(File.a[idx], idx)
                                       [] which = "b" -> JudgeB(File.b[idx], idx)
                                       [] OTHER -> JudgeL(File.l[idx], idx)))
        /\ done' = TRUE /\ UNCHANGED <<which, idx>>
Spec == Init /\ [][Next]_vars
Done == JsonSerialize(IOEnv.RESULT_FILE, [results |-> TLCGet(1)])
=============================================================================
