-------------------------------- MODULE Href --------------------------------
(***************************************************************************)
(* C16: hrefs emitted by the server dereference to the resource they were   *)
(* emitted for.                                                             *)
(*                                                                          *)
(* A member name is a sequence of characters from classes that matter for   *)
(* URL handling:                                                            *)
(*   "x" unreserved letter   " " space   "%" percent   "#" "?" ";" "+"      *)
(*   "e'" a non-ASCII letter (two UTF-8 octets)   "2" "4" "0" digits (so    *)
(*   that names which *look like* percent escapes, e.g. %20 %40, occur)     *)
(*                                                                          *)
(* Level A: Emit = percent-encode every octet that is not unreserved;       *)
(* Deref = percent-decode once.  RoundTrip: Deref(Emit(n)) = n, and Emit is *)
(* injective - checked by TLC for all names up to the bound.  The harness   *)
(* checks the same round trip on the real server for every emitting context *)
(* (PROPFIND Depth 0/1, sync-collection, calendar-query, multiget, POST      *)
(* Location, PROPPATCH response), route prefix and front end.               *)
(***************************************************************************)
EXTENDS Naturals, Sequences, FiniteSets

\* "ca" : a combining acute accent (U+0301, two UTF-8 octets) - after a letter it forms a
\* name in decomposed (NFD) form, which is a different name than the precomposed one
\* "mj" : the two Latin-1 Supplement characters U+00C3 U+00A9 ("mojibake" of e'): four UTF-8 octets
\*        C3 83 C2 A9 which, decoded once more as if they were Latin-1, would read as e' itself
Chars == {"x", " ", "%", "#", "?", ";", "+", "e'", "2", "4", "0", "ca", "mj"}
Unreserved(c) == c \in {"x", "2", "4", "0"}

\* octets of a character (as hex pairs) for the reserved ones
Octets(c) ==
    CASE c = " " -> <<"20">> [] c = "%" -> <<"25">> [] c = "#" -> <<"23">> [] c = "?" -> <<"3F">>
      [] c = ";" -> <<"3B">> [] c = "+" -> <<"2B">> [] c = "e'" -> <<"C3", "A9">> [] c = "ca" -> <<"CC", "81">>
      [] c = "mj" -> <<"C3", "83", "C2", "A9">> [] OTHER -> <<>>

\* an emitted href is a sequence of tokens: a literal unreserved character or an escape <<"%", hex>>
RECURSIVE Emit(_)
Emit(n) ==
    IF n = <<>> THEN <<>>
    ELSE LET c == Head(n) IN
         (IF Unreserved(c) THEN <<[lit |-> c]>> ELSE [i \in DOMAIN Octets(c) |-> [esc |-> Octets(c)[i]]])
         \o Emit(Tail(n))

CharOf(octs) ==
    CASE octs = <<"20">> -> " " [] octs = <<"25">> -> "%" [] octs = <<"23">> -> "#" [] octs = <<"3F">> -> "?"
      [] octs = <<"3B">> -> ";" [] octs = <<"2B">> -> "+" [] OTHER -> "e'"

RECURSIVE Deref(_)
Deref(h) ==
    IF h = <<>> THEN <<>>
    ELSE IF "lit" \in DOMAIN Head(h) THEN <<Head(h).lit>> \o Deref(Tail(h))
    ELSE IF Head(h).esc = "C3" /\ Len(h) >= 4 /\ "esc" \in DOMAIN h[2] /\ h[2].esc = "83"
         THEN <<"mj">> \o Deref(SubSeq(h, 5, Len(h)))
    ELSE IF Head(h).esc = "C3" THEN <<"e'">> \o Deref(Tail(Tail(h)))
    ELSE IF Head(h).esc = "CC" THEN <<"ca">> \o Deref(Tail(Tail(h)))
    ELSE <<CharOf(<<Head(h).esc>>)>> \o Deref(Tail(h))

Names(k) == UNION {[1..j -> Chars] : j \in 1..k}
RoundTrip(k) == \A n \in Names(k) : Deref(Emit(n)) = n
Injective(k) == \A n, m \in Names(k) : Emit(n) = Emit(m) => n = m
\* a name is "escape-like" if it contains a literal % followed by two digits
EscapeLike(n) == \E i \in 1..(Len(n) - 2) : n[i] = "%" /\ n[i + 1] \in {"2", "4", "0"} /\ n[i + 2] \in {"2", "4", "0"}
=============================================================================
