----------------------------- MODULE LayoutCases -----------------------------
EXTENDS Naturals, Sequences, FiniteSets, TLC, Json, IOUtils, TLCExt, SequencesExt
INSTANCE Layout
VARIABLE x
Init == x = 0
Next == UNCHANGED x
Spec == Init /\ [][Next]_x
\* sanity of the level-A operators on the table itself
Thm == \A t \in Cases : /\ Expected(t, "P", 0) = {"P"}
                        /\ Expected(t, "R", 1) = {"R", "P"}
                        /\ \A i \in Ids(t) : Expected(t, i, 1) \cap {"G", "H"} # {} => i \in {"S", "G", "H"}
Write == TLCGet("distinct") >= 0 /\ Thm
         /\ JsonSerialize(IOEnv.RESULT_FILE, [cases |-> SetToSeq({SetToSeq(t) : t \in Cases})])
=============================================================================
