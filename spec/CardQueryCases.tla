--------------------------- MODULE CardQueryCases ---------------------------
(* Case tables of C12 enumerated by TLC from CardQuery.tla (spec -> code).  *)
EXTENDS Naturals, Sequences, FiniteSets, TLC, Json, IOUtils, TLCExt, SequencesExt
INSTANCE CardQuery
CONSTANT MaxNeedle, MaxValue

Words(k) == UNION {[1..j -> Letters] : j \in 1..k}
Types == {"equals", "contains", "starts-with", "ends-with"}
Colls == {"i;octet", "i;ascii-casemap", "i;unicode-casemap"}

\* A: one prop-filter FN with one text-match; every card has exactly one FN
\* values do not begin or end with a blank (a vCard writer may trim those); needles may
VWords(k) == UNION {[1..j -> Letters \cup Special] : j \in 1..k}
Values  == {v \in VWords(MaxValue) : v[1] # "sp" /\ v[Len(v)] # "sp"}
Needles == Words(MaxNeedle)
Tms == {[type |-> t, coll |-> c, neg |-> g, needle |-> n] : t \in Types, c \in Colls, g \in BOOLEAN, n \in Needles}
\* for each text-match: the set of values that must be returned
TableA == {[tm |-> tm, want |-> SetToSeq({v \in Values : TextMatch(tm, v) /\ ~(tm.coll = "i;unicode-casemap" /\ HasSpecial(v))})] : tm \in Tms}

\* B: structure.  Cards with FN, 0-2 EMAIL instances with / without TYPE, optional NOTE
I(v, t) == [v |-> v, type |-> t]
w1 == <<"a", "b">>
w2 == <<"b", "a">>
w3 == <<"e'">>
ty == <<"a">>
wl == <<"LF", "a", "b">>
wc == <<"a", "cm", "b", "sc", "a">>
Cards == {
    [FN |-> <<I(w1, <<>>)>>],
    [FN |-> <<I(w2, <<>>)>>, EMAIL |-> <<I(w1, <<>>)>>],
    [FN |-> <<I(w1, <<>>)>>, EMAIL |-> <<I(w2, ty)>>],
    [FN |-> <<I(w3, <<>>)>>, EMAIL |-> <<I(w2, <<>>), I(w1, ty)>>],
    [FN |-> <<I(w2, <<>>)>>, EMAIL |-> <<I(w3, ty), I(w2, <<>>)>>, NOTE |-> <<I(w1, <<>>)>>],
    \* a value so long that the card file folds its line in the middle of "a b" ("LF" is a filler
    \* of 69 letters: with the property name the fold comes right after the "a"), and a value
    \* with characters the card file escapes ("cm" a comma, "sc" a semicolon)
    [FN |-> <<I(w3, <<>>)>>, NOTE |-> <<I(wl, <<>>)>>],
    [FN |-> <<I(w3, <<>>)>>, NOTE |-> <<I(wc, <<>>)>>]}

C(n) == [type |-> "contains", coll |-> "i;unicode-casemap", neg |-> FALSE, needle |-> n]
NC(n) == [type |-> "contains", coll |-> "i;unicode-casemap", neg |-> TRUE, needle |-> n]
NoP == <<>>
PF(name, nd, test, tms, par) == [name |-> name, nd |-> nd, test |-> test, tms |-> tms, par |-> par]
P(nd, tm) == [nd |-> nd, tm |-> tm]
On(tm) == tm @@ [on |-> TRUE]
Off == [on |-> FALSE, type |-> "contains", coll |-> "i;unicode-casemap", neg |-> FALSE, needle |-> <<>>]
PropFilters == {
    PF("FN", FALSE, "anyof", <<C(w1)>>, NoP), PF("FN", FALSE, "anyof", <<NC(w1)>>, NoP),
    PF("EMAIL", FALSE, "anyof", <<>>, NoP), PF("EMAIL", TRUE, "anyof", <<>>, NoP),
    PF("NOTE", TRUE, "anyof", <<>>, NoP), PF("NOTE", FALSE, "anyof", <<>>, NoP),
    PF("EMAIL", FALSE, "anyof", <<C(w1)>>, NoP), PF("EMAIL", FALSE, "anyof", <<NC(w1)>>, NoP),
    PF("EMAIL", FALSE, "anyof", <<C(w1), C(w3)>>, NoP), PF("EMAIL", FALSE, "allof", <<C(<<"a">>), C(<<"b">>)>>, NoP),
    PF("EMAIL", FALSE, "allof", <<C(w1), C(w3)>>, NoP),
    PF("EMAIL", FALSE, "anyof", <<>>, <<P(TRUE, Off)>>), PF("EMAIL", FALSE, "anyof", <<>>, <<P(FALSE, Off)>>),
    PF("EMAIL", FALSE, "anyof", <<>>, <<P(FALSE, On(C(ty)))>>),
    PF("EMAIL", FALSE, "allof", <<C(w1)>>, <<P(FALSE, Off)>>), PF("EMAIL", FALSE, "anyof", <<C(w1)>>, <<P(FALSE, Off)>>),
    PF("NOTE", FALSE, "anyof", <<C(w1)>>, NoP), PF("NOTE", FALSE, "anyof", <<[C(wl) EXCEPT !.type = "equals"]>>, NoP),
    PF("NOTE", FALSE, "anyof", <<C(<<"cm", "b">>)>>, NoP), PF("NOTE", FALSE, "anyof", <<C(<<"b", "sc">>)>>, NoP),
    PF("NOTE", FALSE, "anyof", <<[C(wc) EXCEPT !.type = "equals"]>>, NoP),
    PF("NOTE", FALSE, "anyof", <<[C(<<"sc", "a">>) EXCEPT !.type = "ends-with"]>>, NoP)}
Filters == {[test |-> t, pfs |-> <<p>>] : t \in {"anyof"}, p \in PropFilters}
           \cup {[test |-> t, pfs |-> <<p, q>>] : t \in {"anyof", "allof"},
                    p \in {PF("FN", FALSE, "anyof", <<C(w1)>>, NoP), PF("NOTE", TRUE, "anyof", <<>>, NoP)},
                    q \in {PF("EMAIL", FALSE, "anyof", <<C(w1)>>, NoP), PF("EMAIL", TRUE, "anyof", <<>>, NoP),
                           PF("EMAIL", FALSE, "anyof", <<>>, <<P(FALSE, On(C(ty)))>>)}}
           \cup {[test |-> "anyof", pfs |-> <<>>]}
CardSeq == SetToSeq(Cards)
TableB == {[f |-> f, want |-> [i \in DOMAIN CardSeq |-> CardMatches(f, CardSeq[i])]] : f \in Filters}

VARIABLE x
Init == x = 0
Next == UNCHANGED x
Spec == Init /\ [][Next]_x
Write == TLCGet("distinct") >= 0 /\ JsonSerialize(IOEnv.RESULT_FILE, [values |-> SetToSeq(Values), a |-> SetToSeq(TableA),
                                            cards |-> CardSeq, b |-> SetToSeq(TableB)])
=============================================================================
