SPECIFICATION Spec
CONSTANTS
  Threshold = 1
  Lossy = FALSE
  MaxDepth = 1000
CHECK_DEADLOCK FALSE
