SPECIFICATION Spec
INVARIANT ReachesAfterDefaults
PROPERTY StartPreserves
CONSTRAINT Bound
CHECK_DEADLOCK FALSE
