------------------------------ MODULE DavTrace ------------------------------
(***************************************************************************)
(* Trace validation (code -> spec) for Dav.tla.                             *)
(*                                                                          *)
(* Input: a JSON file (env TRACE_FILE) holding a batch of recorded          *)
(* executions of the real server.  Every event carries the abstract         *)
(* request, the response class, and a complete audit of the observable      *)
(* state after the request (DESIGN 2.3, harness/davdriver.py).              *)
(*                                                                          *)
(* One TLC state per consumed event.  Each step is *judged*: the Dav        *)
(* outcome operator is evaluated on the projection of the previous audit    *)
(* and compared with the observed response and the next audit; every        *)
(* observational invariant (C02 C07 C08 C09 C16 C17 ...) is evaluated on    *)
(* the new audit and the history.  The verdicts are total: a step never     *)
(* blocks, a violated clause is named, and the model re-synchronises to     *)
(* the observed state so that the rest of the trace is still checked.       *)
(* Known findings are named deviation predicates (DavDeviations.tla).       *)
(***************************************************************************)
EXTENDS Naturals, Sequences, FiniteSets, TLC, SequencesExt, Json, IOUtils, TLCExt

File   == JsonDeserialize(IOEnv.TRACE_FILE)
Traces == File.traces
OutFile == IOEnv.RESULT_FILE

\* which deviation (known-finding) ids are enabled: from known_findings.json
CONSTANT EnabledDevs

BValid(b) == IF b \in DOMAIN File.bodies THEN File.bodies[b].valid ELSE FALSE
BUid(b)   == IF b \in DOMAIN File.bodies THEN File.bodies[b].uid ELSE ""
BKind(b)  == IF b \in DOMAIN File.bodies THEN File.bodies[b].kind ELSE "other"
PropOK(k, p) ==
    CASE p = "displayname" -> TRUE
      [] p = "comment"     -> TRUE
      [] p = "calcolor"    -> k = "calendar"
      [] p = "caldesc"     -> k = "calendar"
      [] p = "order"       -> k = "calendar"
      [] p = "abcolor"     -> k = "addressbook"
      [] p = "abdesc"      -> k = "addressbook"
      [] OTHER             -> FALSE

DefaultKind(c) == IF c = "cal1" THEN "calendar" ELSE IF c = "ab1" THEN "addressbook" ELSE ""
Coll == {"cal1", "cal2", "ab1"}   \* the slots (only RestartOutcome enumerates them)
CollUnused == {}  \* the other alphabets are unbounded here: only the outcome
Name == {}        \* operators of Dav are used, never its alphabets
Body == {}
PropName == {}
Value == {}
INSTANCE Dav

VARIABLES
    tid,    \* which trace of the batch
    l,      \* next event to consume (1-based); Len+1 = finished, Len+2 = reported
    seen,   \* history: set of <<c, n, x, e>> observed (C02)
    snaps,  \* history: set of [c, t, m, cfg] : tag t observed with member map m (C07, C08)
    out     \* verdicts so far: sequence of records
vars == <<tid, l, seen, snaps, out>>

Tr     == Traces[tid]
Events == Tr.events
AuditAt(i) == IF i = 0 THEN Tr.init ELSE Events[i].audit

----------------------------------------------------------------------------
(* Projections of an audit                                                  *)

Colls(a) == DOMAIN a.colls
Proj(a) ==
    [colls |-> [c \in Colls(a) |-> a.colls[c].kind],
     store |-> [c \in Colls(a) |-> [n \in DOMAIN a.colls[c].members |-> a.colls[c].members[n].b]],
     \* which kind-specific properties (colour, description, order) a collection *without a
     \* stored type* shows follows its guessed kind, which follows its members: for those
     \* collections only the kind-independent properties are part of the abstract state
     props |-> [c \in Colls(a) |->
                  IF a.colls[c].typed THEN a.colls[c].props
                  ELSE [p \in DOMAIN a.colls[c].props \cap {"displayname", "comment"} |-> a.colls[c].props[p]]]]
XMap(a, c) == [n \in DOMAIN a.colls[c].members |-> a.colls[c].members[n].x]
EMap(a, c) == [n \in DOMAIN a.colls[c].members |-> a.colls[c].members[n].e]
TagOf(a, c) == IF a.colls[c].tags = <<>> THEN 0 ELSE a.colls[c].tags[1]
CurTag(a, c, n) ==
    IF c \in Colls(a) /\ n \in DOMAIN a.colls[c].members THEN a.colls[c].members[n].e ELSE NoTag
CondOf(h) == [present |-> h.present, star |-> h.star, tags |-> Range(h.tags)]

\* a verdict: kind, property, clause name, detail (JSON text), event index
V(k, p, cl, i) == [k |-> k, p |-> p, w |-> cl.w, d |-> ToJson(cl), i |-> i]
Viol(p, cl, i) == {V("viol", p, cl, i)}
Note(cl, i)    == {V("note", "-", cl, i)}

WhyProp(why) ==
    CASE why \in {"ifmatch", "ifnonematch"} -> "C03"
      [] why = "invalid" -> "C14"
      [] why = "uid"     -> "C06"
      [] why = "propkind" -> "C15"
      [] OTHER           -> "C01"

----------------------------------------------------------------------------
(* 1. Effect of the request: C01 C03 C06 C14 C15                            *)

\* the instructions of a PROPPATCH the server reported as performed (propstat 200)
InsOK(ev) == SelectSeq(ev.ins, LAMBDA x : x.pst = 200)

Outcome(ev, pre) ==
    LET st == Proj(pre) IN
    CASE ev.op = "Put"    -> PutOutcome(st, [c |-> ev.c, n |-> ev.n, b |-> ev.b,
                                             im |-> CondOf(ev.im), inm |-> CondOf(ev.inm)],
                                        CurTag(pre, ev.c, ev.n))
      [] ev.op = "Post"   -> PostOutcome(st, [c |-> ev.c, n |-> ev.n, b |-> ev.b])
      [] ev.op = "Delete" -> DeleteOutcome(st, [c |-> ev.c, n |-> ev.n, im |-> CondOf(ev.im)],
                                           CurTag(pre, ev.c, ev.n))
      [] ev.op = "Mk"     -> MkOutcome(st, [c |-> ev.c, kind |-> ev.kind])
      [] ev.op = "DeleteColl" -> DeleteCollOutcome(st, [c |-> ev.c, im |-> CondOf(ev.im)], ev.cet)
      [] ev.op = "Proppatch"  -> ProppatchOutcome(st, [c |-> ev.c, ins |-> InsOK(ev)])
      [] ev.op = "Restart" -> RestartOutcome(st, ev.defaults)
      [] OTHER -> MustSucceed(st)        \* reads, Lock, Unlock: no change

\* Collection kinds: a collection created without a type ("other") has its type
\* *guessed* from its contents by the server, so its kind may move when members
\* are written; a typed collection keeps its type.
KindsOK(pre, post) ==
    \A c \in Colls(pre) \cap Colls(post) :
        pre.colls[c].kind = post.colls[c].kind \/ ~pre.colls[c].typed
SP(st) == [store |-> st.store, props |-> st.props]
SameSP(a, st) == Proj(a).store = st.store /\ Proj(a).props = st.props

\* effect of a PROPPATCH; values whose class is in freecls are not judged for read-back
PropEffect(ev, pre, post, freecls) ==
           \* document order: the last performed instruction on a property decides; after a
           \* removal the property may read as a default; nothing else moves
           LET ins == InsOK(ev)
               touched == {ins[k].p : k \in DOMAIN ins} \ {"resourcetype"}
               LastIns(p) == CHOOSE k \in DOMAIN ins : ins[k].p = p /\ \A j \in DOMAIN ins : ins[j].p = p => j <= k
               \* a performed instruction on DAV:resourcetype makes the collection one of that kind
               retyped == \E k \in DOMAIN ins : ins[k].p = "resourcetype"
               Indep == {"displayname", "comment"}      \* properties every kind of collection has
           IN
           /\ Proj(post).store = Proj(pre).store
           /\ IF retyped
                THEN /\ post.colls[ev.c].kind = ins[LastIns("resourcetype")].rt
                     /\ \A c \in (Colls(pre) \cap Colls(post)) \ {ev.c} :
                           pre.colls[c].kind = post.colls[c].kind \/ ~pre.colls[c].typed
                ELSE KindsOK(pre, post)
           /\ \A c \in Colls(pre) :
                 \A p \in ((DOMAIN pre.colls[c].props \cup DOMAIN post.colls[c].props
                           \cup (IF c = ev.c THEN touched ELSE {}))
                          \cap (IF c = ev.c /\ retyped THEN Indep \cup touched ELSE
                                  DOMAIN pre.colls[c].props \cup DOMAIN post.colls[c].props \cup touched)) :
                    IF c = ev.c /\ p \in touched
                      THEN (ins[LastIns(p)].set /\ ~ins[LastIns(p)].free /\ ins[LastIns(p)].vcls \notin freecls) =>
                              /\ p \in DOMAIN post.colls[c].props
                              /\ post.colls[c].props[p] = ins[LastIns(p)].v
                      ELSE /\ p \in DOMAIN pre.colls[c].props /\ p \in DOMAIN post.colls[c].props
                           /\ pre.colls[c].props[p] = post.colls[c].props[p]

\* equality of what the request was allowed to touch
EffectMatches(ev, o, pre, post) ==
    CASE ev.op = "Mk" ->
           /\ Proj(post).store = o.st.store
           /\ post.colls[ev.c].kind = ev.kind
           \* C15: every property the creation request reports as set reads back
           /\ \A k \in DOMAIN ev.mprops :
                 ev.mprops[k].pst = 200 =>
                    /\ ev.mprops[k].p \in DOMAIN post.colls[ev.c].props
                    /\ post.colls[ev.c].props[ev.mprops[k].p] = ev.mprops[k].v
           /\ \A c \in Colls(pre) : post.colls[c].props = pre.colls[c].props
           /\ KindsOK(pre, post)
      [] ev.op = "Proppatch" -> PropEffect(ev, pre, post, {})
      [] ev.op = "Restart" ->
           \* exactly the missing default collections appear, empty and of their kind (their
           \* display name reads as a default); every existing collection is as before
           /\ Proj(post).store = o.st.store
           /\ \A c \in Colls(pre) : Proj(post).props[c] = Proj(pre).props[c]
           /\ KindsOK(pre, post)
           /\ \A c \in Colls(post) \ Colls(pre) : post.colls[c].kind = DefaultKind(c)
      [] OTHER -> SameSP(post, o.st) /\ KindsOK(pre, post)

Unchanged(pre, post) == SameSP(post, Proj(pre)) /\ KindsOK(pre, post)


IsWrite(ev) == ev.op \in {"Put", "Post", "Delete", "Mk", "DeleteColl", "Proppatch"}
               \/ (ev.op = "Restart" /\ ev.defaults)

\* did the server report success for this request?
Reported(ev) ==
    IF ev.op = "Proppatch" THEN ev.resp.cls = "ok" /\ InsOK(ev) # <<>>
    ELSE ev.resp.cls = "ok"

JudgeEffect(ev, pre, post, i) ==
    LET o == Outcome(ev, pre)
        same == Unchanged(pre, post)
    IN
    IF ~IsWrite(ev) THEN
        (IF same THEN {}
         \* a restart after which members and kinds are as before but a property reads differently
         ELSE IF ev.op = "Restart" /\ Proj(post).store = Proj(pre).store /\ KindsOK(pre, post)
           THEN Viol("C15", [w |-> "property-changed-by-restart", op |-> ev.op], i)
         ELSE Viol("C01", [w |-> "state-changed-by", op |-> ev.op], i))
    ELSE IF ev.lk /\ ev.resp.cls = "locked" THEN
        (IF same THEN {} ELSE Viol("C01", [w |-> "locked-but-changed", op |-> ev.op], i))
    ELSE IF o.must = "succeed" THEN
        IF Reported(ev) THEN
            (IF EffectMatches(ev, o, pre, post) THEN {}
             ELSE IF ev.op = "Restart" /\ Proj(post).store = o.st.store /\ KindsOK(pre, post)
                     /\ \A c \in Colls(post) \ Colls(pre) : post.colls[c].kind = DefaultKind(c)
               THEN Viol("C15", [w |-> "property-changed-by-restart", op |-> ev.op], i)
             ELSE Viol(IF ev.op = "Proppatch" THEN "C15" ELSE "C01",
                       [w |-> "wrong-effect", op |-> ev.op], i))
        ELSE IF same THEN
            (IF ev.resp.cond = "no-uid-conflict"
               THEN Viol("C06", [w |-> "spurious-uid-refusal", op |-> ev.op], i)
             ELSE IF ev.op = "Proppatch" THEN {}     \* a property may always be refused
             ELSE IF ev.op \in {"Put", "Delete"} /\ ev.resp.cls = "precond" /\ ev.resp.cond = ""
               \* a bare 412 claims that a condition failed - but every condition sent holds
               THEN Viol("C03", [w |-> "precondition-failed-although-conditions-hold", op |-> ev.op], i)
               ELSE Note([w |-> "unexpected-refusal", op |-> ev.op, cls |-> ev.resp.cls,
                          st |-> ev.resp.status], i))
        ELSE Viol("C01", [w |-> "refused-but-changed", op |-> ev.op, cls |-> ev.resp.cls], i)
    ELSE \* the properties demand a refusal without effect
        IF Reported(ev) THEN
            Viol(WhyProp(o.why), [w |-> "accepted", why |-> o.why, op |-> ev.op,
                                  changed |-> ~same], i)
        ELSE IF ~same THEN
            Viol("C01", [w |-> "refused-but-changed", op |-> ev.op, why |-> o.why], i)
        \* the only holders of the UID are members whose deletion the server acknowledged (they
        \* are still served - C01 reports that): by C06 the UID was free from that moment on
        ELSE IF o.why = "uid" /\ ev.op = "Put" /\ "gone" \in DOMAIN ev /\ ev.gone THEN
            Viol("C06", [w |-> "uid-not-reusable-after-acknowledged-delete", op |-> ev.op], i)
        ELSE IF ev.resp.cls \notin o.fail /\ ~(ev.op = "Proppatch" /\ ev.resp.cls = "ok") THEN
            (IF o.why \in {"ifmatch", "ifnonematch"}
               THEN Viol("C03", [w |-> "wrong-failure-status", why |-> o.why,
                                 cls |-> ev.resp.cls, st |-> ev.resp.status], i)
               ELSE Note([w |-> "unexpected-failure-class", why |-> o.why, cls |-> ev.resp.cls,
                          st |-> ev.resp.status], i))
        ELSE {}

\* C01/C02: nothing but the target resource moves at the level of served
\* bytes and validators either.
Target(ev) == IF ev.op \in {"Put", "Post", "Delete"} THEN <<ev.c, ev.n>> ELSE <<"", "">>
JudgeFrame(ev, pre, post, i) ==
    UNION {
      UNION {
        LET a == pre.colls[c].members[n]  b == post.colls[c].members[n] IN
        IF <<c, n>> = Target(ev) /\ Reported(ev) THEN {}
        ELSE (IF a.x # b.x THEN Viol("C01", [w |-> "bytes-changed-without-write", c |-> c, n |-> n], i) ELSE {})
             \cup
             (IF a.e # b.e THEN Viol("C02", [w |-> "etag-changed-without-write", c |-> c, n |-> n], i) ELSE {})
        : n \in DOMAIN pre.colls[c].members \cap DOMAIN post.colls[c].members }
      : c \in Colls(pre) \cap Colls(post) }

----------------------------------------------------------------------------
(* 2. Listings: C01 C16                                                     *)

JudgeListing(post, i) ==
    UNION {
      LET co == post.colls[c] IN
      (IF co.kind = "broken" THEN Viol("C01", [w |-> "collection-unreadable", c |-> c], i) ELSE {})
      \cup
      (IF co.kind # "broken" /\ (Range(co.listing) # DOMAIN co.members
                                 \/ Cardinality(Range(co.listing)) # Len(co.listing))
         THEN Viol("C16", [w |-> "listing-differs-from-members", c |-> c,
                           listing |-> co.listing, members |-> DOMAIN co.members], i) ELSE {})
      \cup
      (IF co.kind # "broken" /\ ~co.hrefs_ok
         THEN Viol("C16", [w |-> "bad-collection-href", c |-> c], i) ELSE {})
      \cup
      UNION { IF co.members[n].st # 200
                THEN Viol("C01", [w |-> "member-unreadable", c |-> c, n |-> n, st |-> co.members[n].st], i)
                ELSE {} : n \in DOMAIN co.members }
      : c \in Colls(post) }
    \cup
    (LET cals == Range(post.homes.calendars)  abs == Range(post.homes.contacts)
         expc == Colls(post) \cap {"cal1", "cal2"}   expa == Colls(post) \cap {"ab1"} IN
     IF cals \cap {"cal1", "cal2"} # expc \/ abs \cap {"ab1"} # expa
        \/ Len(post.homes.calendars) # Cardinality(cals) \/ Len(post.homes.contacts) # Cardinality(abs)
       THEN Viol("C16", [w |-> "home-listing", cals |-> cals, abs |-> abs, exist |-> Colls(post)], i)
       ELSE {})

----------------------------------------------------------------------------
(* 3. ETags: C02 (and report data = GET data: C17/C11/C12)                  *)

JudgeEtags(ev, post, i) ==
    UNION {
      UNION {
        LET m == post.colls[c].members[n] IN
        IF m.st # 200 THEN {} ELSE
        (IF m.e = 0 \/ \E k \in DOMAIN m.views : m.views[k] # m.e
           THEN Viol("C02", [w |-> "etag-views-disagree", c |-> c, n |-> n, e |-> m.e, views |-> m.views], i)
           ELSE {})
        \cup
        (IF \E k \in DOMAIN m.dviews : m.dviews[k] # m.xn
           THEN Viol("C17", [w |-> "report-data-differs-from-get", c |-> c, n |-> n], i)
                \* (C02: a report that shows the member's etag next to other bytes serves two
                \*  different bodies under one etag)
                \cup Viol("C02", [w |-> "report-serves-other-bytes-under-the-etag", c |-> c, n |-> n], i)
           ELSE {})
        \cup
        \* strong validator over the whole history of this path
        (IF \E s \in seen : s[1] = c /\ s[2] = n /\ ((s[3] = m.x) # (s[4] = m.e))
           THEN Viol("C02", [w |-> "etag-not-iff-bytes", c |-> c, n |-> n, x |-> m.x, e |-> m.e], i)
           ELSE {})
        \cup
        (IF ~BValid(m.b)
           THEN Viol("C14", [w |-> "stored-member-does-not-parse", c |-> c, n |-> n], i)
           ELSE {})
        : n \in DOMAIN post.colls[c].members }
      : c \in Colls(post) }
    \cup
    (IF ev.op \in {"Put", "Post"} /\ ev.resp.cls = "ok" /\ ev.c \in Colls(post)
        /\ ev.n \in DOMAIN post.colls[ev.c].members
        /\ ev.resp.etag # post.colls[ev.c].members[ev.n].e
        /\ ~(ev.op = "Post" /\ ev.resp.etag = 0)      \* POST need not send an ETag
       THEN Viol("C02", [w |-> "write-response-etag-differs", op |-> ev.op,
                         got |-> ev.resp.etag, cur |-> post.colls[ev.c].members[ev.n].e], i)
       ELSE {})

SeenAfter(post) ==
    seen \cup UNION { { <<c, n, post.colls[c].members[n].x, post.colls[c].members[n].e>>
                         : n \in {m \in DOMAIN post.colls[c].members : post.colls[c].members[m].st = 200} }
                      : c \in Colls(post) }

\* C06: UIDs unique within a collection (invariant on every audit)
JudgeUids(post, i) ==
    UNION {
      LET ms == post.colls[c].members
          ics == {n \in DOMAIN ms : BKind(ms[n].b) = "ics" /\ BUid(ms[n].b) # ""} IN
      IF \E n, m \in ics : n # m /\ BUid(ms[n].b) = BUid(ms[m].b)
        THEN Viol("C06", [w |-> "two-members-share-a-uid", c |-> c], i) ELSE {}
      : c \in Colls(post) }

----------------------------------------------------------------------------
(* 4. Collection tags: C08                                                  *)

\* C08: a request that is not answered with success leaves every collection tag alone
\* C08: the stored settings of a collection (they are part of what its tag stands for) change
\* only through requests that set them
JudgeCfgFrame(ev, pre, post, i) ==
    IF ev.op \in {"Proppatch", "Mk", "DeleteColl"} \/ (ev.op = "Restart" /\ ev.defaults) THEN {} ELSE
    UNION { IF pre.colls[c].cfg # post.colls[c].cfg /\ pre.colls[c].kind # "broken" /\ post.colls[c].kind # "broken"
              THEN Viol("C08", [w |-> "settings-changed-by-a-request-that-does-not-set-them", c |-> c, op |-> ev.op], i)
              ELSE {}
            : c \in Colls(pre) \cap Colls(post) }

JudgeTagFrame(ev, pre, post, i) ==
    IF Reported(ev) \/ ~IsWrite(ev) THEN {}
    ELSE UNION { IF pre.colls[c].tagged /\ pre.colls[c].kind # "broken" /\ post.colls[c].kind # "broken"
                    /\ TagOf(pre, c) # TagOf(post, c)
                   THEN Viol("C08", [w |-> "tag-changed-by-a-failed-request", c |-> c, op |-> ev.op,
                                     cls |-> ev.resp.cls, st |-> ev.resp.status], i)
                   ELSE {}
                 : c \in Colls(pre) \cap Colls(post) }

JudgeTags(post, i) ==
    UNION {
      LET co == post.colls[c]  t == TagOf(post, c)  m == XMap(post, c) IN
      IF co.kind = "broken" \/ ~co.tagged THEN {} ELSE
      (IF co.tags = <<>> \/ \E k \in DOMAIN co.tags : co.tags[k] # t
         THEN Viol("C08", [w |-> "tag-views-disagree", c |-> c, tags |-> co.tags], i) ELSE {})
      \cup
      (IF \E s \in snaps : s.c = c /\ s.t = t /\ s.m # m
         THEN Viol("C08", [w |-> "same-tag-for-different-contents", c |-> c, t |-> t], i) ELSE {})
      \cup
      (IF \E s \in snaps : s.c = c /\ s.t # t /\ s.m = m /\ s.cfg = co.cfg /\ ~co.git.skipped
         THEN Viol("C08", [w |-> "different-tag-for-equal-contents", c |-> c, t |-> t], i) ELSE {})
      : c \in Colls(post) }

SnapsAfter(post) ==
    {s \in snaps : s.c \in Colls(post)}    \* a destroyed collection takes its tokens with it
    \cup {[c |-> c, t |-> TagOf(post, c), m |-> XMap(post, c), cfg |-> post.colls[c].cfg]
            : c \in {d \in Colls(post) : post.colls[d].kind # "broken" /\ post.colls[d].tagged}}

----------------------------------------------------------------------------
(* 5. Git history: C09                                                      *)

JudgeGit(ev, pre, post, i) ==
    UNION {
      LET g == post.colls[c].git IN
      IF g.skipped \/ post.colls[c].kind = "broken" THEN {} ELSE
      (IF ~g.fsck THEN Viol("C09", [w |-> "git-fsck-fails", c |-> c], i) ELSE {})
      \cup
      (IF ~g.bare /\ ~g.clean THEN Viol("C09", [w |-> "git-status-not-clean", c |-> c, s |-> g.status], i) ELSE {})
      \cup
      (IF ~g.linear THEN Viol("C09", [w |-> "history-not-linear", c |-> c], i) ELSE {})
      \cup
      (IF g.tree # XMap(post, c)
         THEN Viol("C09", [w |-> "head-tree-differs-from-served-members", c |-> c], i) ELSE {})
      \cup
      (IF c \in Colls(pre) /\ ~pre.colls[c].git.skipped /\ pre.colls[c].kind # "broken"
          /\ ~(ev.op \in {"Mk", "DeleteColl"} /\ ev.c = c)
         THEN LET pg == pre.colls[c].git
                  changed == XMap(pre, c) # XMap(post, c) \/ pre.colls[c].cfg # post.colls[c].cfg
                  d == Len(g.log) - Len(pg.log)
                  \* a PROPPATCH with k performed instructions is k property changes: up to k
                  \* commits, and with k >= 2 the changes may cancel out (set, then remove)
                  k == IF ev.op = "Proppatch" /\ ev.c = c THEN Len(InsOK(ev)) ELSE 1
                  \* every performed instruction re-sends the value the property already has
                  allnoop == ev.op = "Proppatch" /\ ev.c = c /\ InsOK(ev) # <<>>
                             /\ \A j \in DOMAIN InsOK(ev) : InsOK(ev)[j].noop IN
              (IF ~IsPrefix(pg.log, g.log)
                 THEN Viol("C09", [w |-> "history-rewritten", c |-> c], i) ELSE {})
              \cup
              \* a member write that is acknowledged and that the property level says changes the
              \* collection (e.g. back to contents it had earlier) must show as a commit
              (IF IsPrefix(pg.log, g.log) /\ d = 0 /\ ev.op \in {"Put", "Post", "Delete"} /\ ev.c = c
                  /\ Reported(ev)
                  /\ LET o == Outcome(ev, pre) IN
                       o.must = "succeed" /\ c \in DOMAIN o.st.store /\ o.st.store[c] # Proj(pre).store[c]
                 THEN Viol("C09", [w |-> "acknowledged-change-without-commit", c |-> c], i) ELSE {})
              \cup
              (IF IsPrefix(pg.log, g.log) /\ changed /\ ~(d >= 1 /\ (d = 1 \/ d <= k))
                 THEN Viol("C09", [w |-> "change-without-exactly-one-commit", c |-> c, commits |-> d], i) ELSE {})
              \cup
              (IF IsPrefix(pg.log, g.log) /\ allnoop /\ d # 0
                 THEN Viol("C09", [w |-> "commit-for-a-property-rewrite-that-changes-nothing", c |-> c, commits |-> d], i) ELSE {})
              \cup
              (IF IsPrefix(pg.log, g.log) /\ ~changed /\ ~(d = 0 \/ (k >= 2 /\ d <= k))
                 THEN Viol("C09", [w |-> "commit-without-change", c |-> c, commits |-> d], i) ELSE {})
         ELSE {})
      : c \in Colls(post) }

----------------------------------------------------------------------------
(* 6. sync-collection: C07                                                  *)

ExpectedSync(old, post, c) ==      \* old: name |-> x at token time
    LET cur == XMap(post, c) IN
    [changed |-> [n \in SyncChanged(old, cur) |-> post.colls[c].members[n].e],
     removed |-> SyncRemoved(old, cur)]

JudgeSync(post, i) ==
    UNION {
      UNION {
        LET r == post.colls[c].sync[k]  cur == TagOf(post, c) IN
        CASE r.kind = "foreign" ->
               (IF r.ok /\ ~(\E s \in SnapsAfter(post) : s.c = c /\ s.t = r.t)
                  THEN Viol("C07", [w |-> "foreign-token-answered-with-a-change-list", c |-> c], i) ELSE {})
          [] r.kind = "empty" ->
               (IF ~r.ok \/ r.changed # EMap(post, c) \/ r.removed # <<>> \/ r.token # cur \/ r.extra # 0
                  THEN Viol("C07", [w |-> "empty-token-is-not-full-membership", c |-> c,
                                    got |-> r.changed, want |-> EMap(post, c)], i) ELSE {})
          [] OTHER ->
               LET olds == {s \in SnapsAfter(post) : s.c = c /\ s.t = r.t} IN
               IF olds = {} THEN {}
               ELSE LET exps == {ExpectedSync(s.m, post, c) : s \in olds} IN
                    IF ~r.ok
                      THEN Viol("C07", [w |-> "issued-token-rejected", c |-> c, t |-> r.t], i)
                    ELSE IF ~(\E e \in exps : r.changed = e.changed /\ Range(r.removed) = e.removed)
                            \/ r.token # cur \/ r.extra # 0
                            \/ Len(r.removed) # Cardinality(Range(r.removed))
                      THEN Viol("C07", [w |-> "wrong-change-list", c |-> c, t |-> r.t,
                                        changed |-> r.changed, removed |-> r.removed,
                                        want |-> exps], i)
                           \* C02: the etag a sync report carries for a live member is the
                           \* member's etag (the same value every other view shows)
                           \cup (IF \E n \in DOMAIN r.changed \cap DOMAIN EMap(post, c) : r.changed[n] # EMap(post, c)[n]
                                  THEN Viol("C02", [w |-> "sync-report-etag-differs-from-getetag", c |-> c, t |-> r.t], i)
                                  ELSE {})
                    ELSE {}
        : k \in DOMAIN post.colls[c].sync }
      : c \in Colls(post) }

----------------------------------------------------------------------------
(* 7. multiget events: C17 ; conditional GET: C03                           *)

JudgeMultiget(ev, post, i) ==
    IF ev.op # "Multiget" \/ ev.c \notin Colls(post) THEN {} ELSE
    IF post.colls[ev.c].kind \notin {"calendar", "addressbook"} THEN {} ELSE   \* report not offered there
    LET ms == post.colls[ev.c].members
        Groups == {ev.items[j].g : j \in DOMAIN ev.items}
        ItemsOf(g) == {j \in DOMAIN ev.items : ev.items[j].g = g}
        AnsFor(g) == {k \in DOMAIN ev.answers : ev.answers[k].g = g}
    IN
    (IF ev.resp.status # 207 THEN Viol("C17", [w |-> "multiget-failed", st |-> ev.resp.status], i) ELSE {})
    \cup
    (IF ev.resp.status = 207 /\ AnsFor(0) # {}
       THEN Viol("C17", [w |-> "answer-for-a-href-not-requested", n |-> Cardinality(AnsFor(0))], i) ELSE {})
    \cup
    UNION {
      \* hrefs of one group designate the same resource; `distinct' counts the
      \* textually different ones among them
      LET js == ItemsOf(g)  as == AnsFor(g)
          distinct == Cardinality({ev.items[j].t : j \in js})
          it == ev.items[CHOOSE j \in js : TRUE] IN
      IF ev.resp.status # 207 THEN {} ELSE
      (IF Cardinality(as) # distinct
         THEN Viol("C17", [w |-> "href-not-answered-exactly-once", item |-> it,
                           asked |-> distinct, answered |-> Cardinality(as)], i) ELSE {})
      \cup
      UNION {
        LET a == ev.answers[k]  live == it.n \in DOMAIN ms IN
        \* the class only says how the href was spelled; what it must be answered
        \* with is decided by the state
        CASE it.cls \in {"live", "missing", "dup", "enc", "abs"} /\ live /\ BKind(ms[it.n].b) = ev.rk ->
               (IF ~a.found \/ a.e # ms[it.n].e \/ ~a.hasdata \/ a.xn # ms[it.n].xn
                  THEN Viol("C17", [w |-> "wrong-answer-for-live-href", item |-> it, a |-> a], i) ELSE {})
               \cup
               (IF a.found /\ a.e # ms[it.n].e
                  THEN Viol("C02", [w |-> "multiget-etag-differs-from-getetag", item |-> it, a |-> a], i) ELSE {})
          [] it.cls = "othercoll" ->
               \* a member of another collection: serving it is fine, but then with its own data
               (IF a.hasdata /\ ~(it.oc \in Colls(post) /\ it.n \in DOMAIN post.colls[it.oc].members
                                  /\ a.e = post.colls[it.oc].members[it.n].e
                                  /\ a.xn = post.colls[it.oc].members[it.n].xn)
                  THEN Viol("C17", [w |-> "wrong-data-for-href-in-other-collection", item |-> it, a |-> a], i) ELSE {})
               \cup
               \* C02: the etag a multiget carries for a live resource is that resource's etag
               (IF a.found /\ it.oc \in Colls(post) /\ it.n \in DOMAIN post.colls[it.oc].members
                   /\ a.e # post.colls[it.oc].members[it.n].e
                  THEN Viol("C02", [w |-> "multiget-etag-differs-from-getetag", item |-> it, a |-> a], i) ELSE {})
          [] it.cls = "dotpath" ->
               \* another spelling (dot segment, doubled slash) of a member's path: it may be
               \* resolved or refused, but data served for it is that member's data
               (IF a.hasdata /\ ~(live /\ a.e = ms[it.n].e /\ a.xn = ms[it.n].xn)
                  THEN Viol("C17", [w |-> "wrong-data-for-a-respelled-href", item |-> it, a |-> a], i) ELSE {})
          [] OTHER ->
               (IF a.hasdata
                  THEN Viol("C17", [w |-> "data-served-for-unresolvable-href", item |-> it, a |-> a], i) ELSE {})
               \cup
               \* a member the collection itself lists (PROPFIND Depth 1) is not "absent"
               (IF it.cls \in {"live", "missing", "dup", "enc", "abs"} /\ ~a.found
                   /\ it.n \in Range(post.colls[ev.c].listing)
                  THEN Viol("C17", [w |-> "listed-member-answered-as-absent", item |-> it], i) ELSE {})
        : k \in as }
      : g \in Groups }

JudgeGet(ev, pre, i) ==
    IF ev.op # "Get" THEN {} ELSE
    LET cur == CurTag(pre, ev.c, ev.n)  c == CondOf(ev.inm) IN
    IF cur = NoTag THEN
        (IF ev.resp.cls # "notfound" THEN Viol("C01", [w |-> "get-of-absent-not-404", cls |-> ev.resp.cls], i) ELSE {})
    ELSE
    \* C02: an ETag header on the answer of a GET / HEAD (200 or 304) is the resource's etag
    (IF ev.resp.etag # 0 /\ ev.resp.etag # cur
       THEN Viol("C02", [w |-> "etag-header-of-get-differs-from-getetag", cls |-> ev.resp.cls], i) ELSE {})
    \cup
    (IF c.present /\ CondMatches(c, cur) THEN
        (IF ev.resp.cls # "notmodified" \/ ev.bodylen # 0
           THEN Viol("C03", [w |-> "if-none-match-not-304", cls |-> ev.resp.cls, len |-> ev.bodylen], i) ELSE {})
     ELSE
        (IF ev.resp.cls # "ok" THEN Viol("C03", [w |-> "get-not-served", cls |-> ev.resp.cls], i) ELSE {}))

\* C03 by the server's own word: it acknowledged writing this resource and no delete of it
\* since - a PUT with If-None-Match: * must not be carried out (even if the server has "lost" it)
JudgeAckCond(ev, i) ==
    IF ev.op = "Put" /\ "acklive" \in DOMAIN ev /\ ev.acklive /\ ev.inm.present /\ ev.inm.star
       /\ ev.resp.cls = "ok" /\ ~ev.lk
      THEN Viol("C03", [w |-> "if-none-match-star-accepted-on-an-acknowledged-resource", op |-> ev.op], i)
      ELSE {}

\* C14: re-uploading what the server serves is a no-op
JudgeReupload(ev, pre, post, i) ==
    IF ~(ev.op = "Put" /\ ev.re) THEN {} ELSE
    IF ev.c \notin Colls(pre) \/ ev.c \notin Colls(post) THEN {} ELSE
    LET a == pre.colls[ev.c]  b == post.colls[ev.c] IN
    IF ev.lk /\ ev.resp.cls = "locked" THEN {} ELSE
    IF ev.resp.cls # "ok" THEN Viol("C14", [w |-> "reupload-refused", cls |-> ev.resp.cls], i)
    ELSE
    (IF ev.n \in DOMAIN a.members /\ ev.n \in DOMAIN b.members /\ a.members[ev.n].e # b.members[ev.n].e
       THEN Viol("C14", [w |-> "reupload-changed-etag"], i) ELSE {})
    \cup (IF a.tags # b.tags THEN Viol("C14", [w |-> "reupload-changed-collection-tag"], i) ELSE {})
    \cup (IF ~a.git.skipped /\ a.git.log # b.git.log THEN Viol("C14", [w |-> "reupload-made-a-commit"], i) ELSE {})

----------------------------------------------------------------------------
\* Known findings of this cluster (DESIGN 2.5): a wrong-effect verdict on a PROPPATCH that is
\* explained *exactly* by the read-back of values of one class (everything else about the
\* request is as the specification demands)
LossyClasses == {"comment-line", "indented-line"}
DevFor(v, ev, pre, post, cfg) ==
    IF v.w = "wrong-effect" /\ ev.op = "Proppatch"
       /\ \E cls \in LossyClasses : PropEffect(ev, pre, post, {cls})
      THEN "dav:C15:multi-line-value:" \o (CHOOSE cls \in LossyClasses : PropEffect(ev, pre, post, {cls}))
      ELSE ""

Judge(ev, pre, post, i) ==
    LET raw == JudgeEffect(ev, pre, post, i) \cup JudgeFrame(ev, pre, post, i)
               \cup JudgeListing(post, i) \cup JudgeEtags(ev, post, i) \cup JudgeUids(post, i)
               \cup JudgeTags(post, i) \cup JudgeTagFrame(ev, pre, post, i) \cup JudgeCfgFrame(ev, pre, post, i) \cup JudgeGit(ev, pre, post, i) \cup JudgeSync(post, i)
               \cup JudgeMultiget(ev, post, i) \cup JudgeGet(ev, pre, i)
               \cup JudgeReupload(ev, pre, post, i) \cup JudgeAckCond(ev, i)
    IN  \* a violation that a listed deviation explains exactly becomes a known finding
    { IF v.k = "viol" /\ DevFor(v, ev, pre, post, Tr.cfg) # "" /\ DevFor(v, ev, pre, post, Tr.cfg) \in EnabledDevs
        THEN [k |-> "known", p |-> v.p, w |-> DevFor(v, ev, pre, post, Tr.cfg), d |-> v.d, i |-> v.i]
        ELSE v : v \in raw }

----------------------------------------------------------------------------
Init ==
    /\ tid \in DOMAIN Traces
    /\ l = 1
    /\ seen = {}
    /\ snaps = {}
    /\ out = {}
    /\ TLCSet(1, {})

Step ==
    /\ l <= Len(Events)
    /\ LET ev == Events[l]  pre == AuditAt(l - 1)  post == ev.audit IN
       /\ out' = out \cup Judge(ev, pre, post, l)
       /\ seen' = SeenAfter(post)
       /\ snaps' = SnapsAfter(post)
    /\ l' = l + 1
    /\ UNCHANGED tid

\* the initial audit is judged as well (listing, etags, tags) when the trace starts
Finish ==
    /\ l = Len(Events) + 1
    /\ TLCSet(1, TLCGet(1) \cup {[id |-> Tr.id, n |-> Len(Events), v |-> out]})
    /\ l' = l + 1
    /\ UNCHANGED <<tid, seen, snaps, out>>

Next == Step \/ Finish
Spec == Init /\ [][Next]_vars

\* every trace was consumed to its end and reported
Done == JsonSerialize(OutFile, [results |-> TLCGet(1)])
=============================================================================
