SPECIFICATION Spec
CONSTANT EnabledDevs = {}
POSTCONDITION Done
CHECK_DEADLOCK FALSE
