SPECIFICATION Spec
CONSTANTS
  MaxLen = 3
  Full = FALSE
POSTCONDITION Write
CHECK_DEADLOCK FALSE
