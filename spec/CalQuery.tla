------------------------------ MODULE CalQuery ------------------------------
(***************************************************************************)
(* C11, property level: which calendar components match a CalDAV            *)
(* calendar-query filter (RFC 4791 sections 9.7.1 - 9.7.5 and 9.9).         *)
(*                                                                          *)
(* Time is an integer grid; the query range is [S, E).  Every date-time     *)
(* value of a component is a grid point (the concretisation in              *)
(* harness/calcases.py places the grid in UTC, in floating time, with TZID, *)
(* or on DATE boundaries of the effective time zone).  D1 is the length of  *)
(* one day on the grid (DATE values lie on multiples of D1).                *)
(*                                                                          *)
(* This is a transcription of decision tables: TLC is used as exhaustive    *)
(* enumerator and oracle for the finite case space, and re-evaluates the    *)
(* operators when judging observed results (CalQueryTrace.tla).             *)
(***************************************************************************)
EXTENDS Naturals, Integers, Sequences, FiniteSets

CONSTANTS S, E, D1     \* query range start / end, one day

NoVal == -1            \* property absent

Has(x) == x # NoVal

(* --- 9.9 VEVENT --------------------------------------------------------- *)
\* c = [dtstart, dtend, dur, isdate]   dur: NoVal or >= 0
VEventOverlaps(c) ==
    IF ~Has(c.dtstart) THEN FALSE
    ELSE IF Has(c.dtend)              THEN S < c.dtend /\ E > c.dtstart
    ELSE IF Has(c.dur) /\ c.dur > 0   THEN S < c.dtstart + c.dur /\ E > c.dtstart
    ELSE IF Has(c.dur)                THEN S <= c.dtstart /\ E > c.dtstart
    ELSE IF ~c.isdate                 THEN S <= c.dtstart /\ E > c.dtstart
    ELSE                                   S < c.dtstart + D1 /\ E > c.dtstart

(* --- 9.9 VTODO ---------------------------------------------------------- *)
\* c = [dtstart, dur, due, completed, created]
VTodoOverlaps(c) ==
    IF Has(c.dtstart) /\ Has(c.dur) /\ ~Has(c.due) THEN
        S <= c.dtstart + c.dur /\ (E > c.dtstart \/ E >= c.dtstart + c.dur)
    ELSE IF Has(c.dtstart) /\ ~Has(c.dur) /\ Has(c.due) THEN
        (S < c.due \/ S <= c.dtstart) /\ (E > c.dtstart \/ E >= c.due)
    ELSE IF Has(c.dtstart) /\ ~Has(c.dur) /\ ~Has(c.due) THEN
        S <= c.dtstart /\ E > c.dtstart
    ELSE IF ~Has(c.dtstart) /\ ~Has(c.dur) /\ Has(c.due) THEN
        S < c.due /\ E >= c.due
    ELSE IF ~Has(c.dtstart) /\ ~Has(c.due) /\ Has(c.completed) /\ Has(c.created) THEN
        (S <= c.created \/ S <= c.completed) /\ (E >= c.created \/ E >= c.completed)
    ELSE IF ~Has(c.dtstart) /\ ~Has(c.due) /\ Has(c.completed) THEN
        S <= c.completed /\ E >= c.completed
    ELSE IF ~Has(c.dtstart) /\ ~Has(c.due) /\ Has(c.created) THEN
        E > c.created
    ELSE TRUE

(* --- 9.9 VJOURNAL ------------------------------------------------------- *)
VJournalOverlaps(c) ==
    IF ~Has(c.dtstart) THEN FALSE
    ELSE IF ~c.isdate  THEN S <= c.dtstart /\ E > c.dtstart
    ELSE                    S < c.dtstart + D1 /\ E > c.dtstart

(* --- 9.9 VFREEBUSY ------------------------------------------------------ *)
\* c = [dtstart, dtend, fbstart, fbend]   (one FREEBUSY period or none)
VFreeBusyOverlaps(c) ==
    IF Has(c.dtstart) /\ Has(c.dtend) THEN S <= c.dtend /\ E > c.dtstart
    ELSE IF Has(c.fbstart)            THEN S < c.fbend /\ E > c.fbstart
    ELSE FALSE

Overlaps(kind, c) ==
    CASE kind = "VEVENT"    -> VEventOverlaps(c)
      [] kind = "VTODO"     -> VTodoOverlaps(c)
      [] kind = "VJOURNAL"  -> VJournalOverlaps(c)
      [] OTHER              -> VFreeBusyOverlaps(c)

(* --- 7.10 free-busy-query (beyond the listed properties) ------------------ *)
\* The busy period a VEVENT contributes to a free-busy report over [S, E):
\* <<start, end>> if it overlaps the range and is opaque and not cancelled;
\* NoPeriod otherwise.  transp \in {"OPAQUE","TRANSPARENT"}, status \in
\* {"CONFIRMED","TENTATIVE","CANCELLED"}.
NoPeriod == <<NoVal, NoVal>>
BusyPeriod(c, transp, status) ==
    IF ~VEventOverlaps(c) \/ transp = "TRANSPARENT" \/ status = "CANCELLED" THEN NoPeriod
    ELSE <<c.dtstart,
           IF Has(c.dtend) THEN c.dtend
           ELSE IF Has(c.dur) THEN c.dtstart + c.dur
           ELSE IF c.isdate THEN c.dtstart + D1 ELSE c.dtstart>>

(* ------------------------------------------------------------------------ *)
(* 9.7.1 - 9.7.5: structural filters.                                        *)
(*                                                                          *)
(* An object is a set of component records                                  *)
(*     [kind, summary, att]  summary: "" (absent) or a text;                *)
(*                           att: "none" | "plain" | "accepted" | "declined"*)
(*                           (an ATTENDEE without / with a PARTSTAT param)  *)
(* A filter (inside comp-filter VCALENDAR) is                                *)
(*     [comp, cnd, prop, pnd, tm, param, qnd, ptm]                           *)
(*  comp: component name; cnd: comp is-not-defined                           *)
(*  prop: "" | "SUMMARY" | "ATTENDEE"; pnd: prop is-not-defined              *)
(*  tm:   text-match on the property value: [on, needle, neg, coll]          *)
(*  param: "" | "PARTSTAT"; qnd: param is-not-defined                        *)
(*  ptm:  text-match on the parameter value                                  *)
(***************************************************************************)
Upper(t) ==     \* i;ascii-casemap folding of the text alphabet used by the cases
    CASE t = "Meeting" -> "MEETING" [] t = "meeting notes" -> "MEETING NOTES"
      [] t = "meet" -> "MEET" [] t = "MEET" -> "MEET" [] t = "xyz" -> "XYZ"
      [] t = "ACCEPTED" -> "ACCEPTED" [] t = "accepted" -> "ACCEPTED" [] t = "DECLINED" -> "DECLINED"
      [] t = "ACC" -> "ACC"
      \* "NONASCII" stands for a text with non-ASCII letters ("Café Zürich"), "NONASCII-UP" for the
      \* same text with its ASCII letters in upper case ("CAFé ZüRICH"): i;ascii-casemap folds
      \* only the ASCII letters
      [] t = "NONASCII" -> "NONASCII-UP"
      \* "ESCAPED": a text with characters that are backslash-escaped in the stored form (comma,
      \* semicolon, line break); "FOLDED": a text longer than one 75-octet content line.  The
      \* match is on the value, never on its serialisation.
      \* "EMPTYVAL": the property is there, its value is the empty text (SUMMARY:) - defined, and
      \* equal to no needle of the tables
      [] t = "ESCAPED" -> "ESCAPED-UP"
      [] t = "FOLDED" -> "FOLDED-UP"
      [] OTHER -> t

\* substring relation on the (folded or raw) alphabet
Sub(n, v) ==
    \/ n = v
    \/ n = "meet" /\ v = "meeting notes"
    \/ n = "MEET" /\ v \in {"MEETING", "MEETING NOTES"}
    \/ n = "ACC" /\ v = "ACCEPTED"
    \/ n = "MEETING" /\ v = "MEETING NOTES"

TextContains(coll, needle, value) ==
    IF coll = "i;octet" THEN Sub(needle, value) ELSE Sub(Upper(needle), Upper(value))

TextMatch(tm, value) ==
    LET m == TextContains(tm.coll, tm.needle, value) IN IF tm.neg THEN ~m ELSE m

PropValue(c, prop) == IF prop = "SUMMARY" THEN c.summary
                      ELSE IF c.att = "none" THEN "" ELSE "mailto:a@example.com"
\* (the summary token "RECURRING" marks a component that carries an RRULE)
PropDefined(c, prop) == IF prop = "SUMMARY" THEN c.summary # ""
                        ELSE IF prop = "RRULE" THEN c.summary = "RECURRING"
                        ELSE c.att # "none"
ParamValue(c) == CASE c.att = "accepted" -> "ACCEPTED" [] c.att = "declined" -> "DECLINED" [] OTHER -> ""

\* 9.7.3 param-filter
ParamMatches(f, c) ==
    IF f.qnd THEN ParamValue(c) = ""
    ELSE /\ ParamValue(c) # ""
         /\ (f.ptm.on => TextMatch(f.ptm, ParamValue(c)))

\* 9.7.2 prop-filter
PropMatches(f, c) ==
    IF f.pnd THEN ~PropDefined(c, f.prop)
    ELSE /\ PropDefined(c, f.prop)
         /\ (f.tm.on => TextMatch(f.tm, PropValue(c, f.prop)))
         /\ (f.param # "" => ParamMatches(f, c))

\* 9.7.1 comp-filter (one level below VCALENDAR)
ObjMatches(f, obj) ==
    IF f.cnd THEN ~\E c \in obj : c.kind = f.comp
    ELSE \E c \in obj : c.kind = f.comp /\ (f.prop # "" => PropMatches(f, c))
=============================================================================
