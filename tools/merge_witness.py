#!/usr/bin/env python3
"""Maintainer tool (never run by a check): copy the witness candidates a check run left in
out/witness/<module>.json into the open entries of known_findings.json that lack one."""
import json, os, sys
V = os.path.dirname(os.path.dirname(os.path.abspath(__file__)))
kf = json.load(open(os.path.join(V, "known_findings.json")))
n = 0
for mod in sys.argv[1:] or ["Lin", "Index", "CalQuery"]:
    p = os.path.join(V, "out", "witness", mod + ".json")
    if not os.path.exists(p):
        continue
    cand = json.load(open(p))
    for f in kf["findings"]:
        if f.get("status") == "open" and f.get("module") == mod and f.get("dev") in cand and "--force" not in sys.argv and not f.get("witness"):
            f["witness"] = cand[f["dev"]]
            n += 1
json.dump(kf, open(os.path.join(V, "known_findings.json"), "w"), indent=1, ensure_ascii=False)
print("witnesses added:", n)
