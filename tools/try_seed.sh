#!/bin/bash
# usage: tools/try_seed.sh <seed-dir> <prop> [<prop>...]   (applies the patch to /repo, runs quick checks, reverts)
set -u
d=$1; shift
cd /verif
if ! git -C /repo diff --quiet; then echo "/repo has uncommitted changes"; exit 2; fi
git -C /repo apply "$PWD/$d/patch.diff" || { echo "patch does not apply"; exit 2; }
trap 'git -C /repo checkout -- . ; git -C /repo clean -fdq xandikos 2>/dev/null' EXIT
for p in "$@"; do
  ./check $p --tier ${TIER:-quick} > /var/tmp/seedrun_$(basename $d)_$p.txt 2>&1; rc=$?
  echo "$d $p exit=$rc violations=$(grep -c '^VIOLATION' /var/tmp/seedrun_$(basename $d)_$p.txt) $(grep -A1 '^VIOLATION' /var/tmp/seedrun_$(basename $d)_$p.txt | grep -v '^VIOLATION\|^--' | sed 's/ at step.*//' | sort | uniq -c | sort -rn | head -3 | tr '\n' ';')"
done
