HOOK_COMMITS = []
NOTES = ("All checks are model-based: explicit TLA+ specifications in spec/ checked by TLC and bound to the "
         "implementation by replaying TLC behaviours into the real code and validating recorded executions "
         "against trace specifications (see DESIGN.md). Exit 2 = machinery failure.")
ENGINES = [
    {"name": "discovery", "path": "harness/discoverycheck.py", "serves_properties": ["C18"],
     "kind_free_text": "Discovery.tla model checked; real server processes walked and restarted, judged by DiscoveryTrace.tla"},
    {"name": "href", "path": "harness/hrefcheck.py", "serves_properties": ["C16"],
     "kind_free_text": "Href.tla names enumerated by TLC, hrefs dereferenced verbatim on the real server, judged by HrefTrace.tla"},
    {"name": "pathmap", "path": "harness/pathcheck.py", "serves_properties": ["C13"],
     "kind_free_text": "PathMap.tla targets enumerated by TLC, executed under the audit-hook recorder, judged by PathMapTrace.tla"},
    {"name": "cardquery", "path": "harness/cardcheck.py", "serves_properties": ["C12"],
     "kind_free_text": "CardQuery.tla tables enumerated by TLC (CardQueryCases.tla), executed via REPORT, judged by CardQueryTrace.tla"},
    {"name": "calquery", "path": "harness/calcheck.py", "serves_properties": ["C11"],
     "kind_free_text": "CalQuery.tla tables enumerated by TLC (CalQueryCases.tla), executed via REPORT, judged by CalQueryTrace.tla"},
    {"name": "index", "path": "harness/indexcheck.py", "serves_properties": ["C10"],
     "kind_free_text": "IndexMgr.tla model checked; query histories on the real store judged by IndexTrace.tla"},
    {"name": "crash", "path": "harness/crashcheck.py", "serves_properties": ["C04"],
     "kind_free_text": "StoreProto.tla model checked; crash images of the real stores judged by CrashTrace.tla; gate sequences validated by StoreProtoTrace.tla"},
    {"name": "race", "path": "harness/racecheck.py", "serves_properties": ["C05"],
     "kind_free_text": "StoreProto.tla (two writers) model checked against Lin.tla; real schedules (harness/sched.py) judged by LinTrace.tla"},
    {"name": "dav", "path": "harness/davcheck.py",
     "serves_properties": ["C01", "C02", "C03", "C06", "C07", "C08", "C09", "C14", "C15", "C17"],
     "kind_free_text": "TLC exhaustive check of spec/DavMC.tla; TLC-simulated behaviours replayed on the real server; "
                       "random histories recorded and validated by TLC against spec/DavTrace.tla (+DavDeviations.tla)"},
]
ALL = ["C%02d" % i for i in range(1, 19)]

TEXT = {
 "C01": "Property-level TLA+ model (Dav.tla) checked exhaustively by TLC in small scope; the same outcome operators judge, through TLC trace validation (DavTrace.tla), every step of model-generated and random request histories executed on the real server (two front ends, route prefixes, tree/bare git, vdir and memory stores), with a full state audit after each request.",
}

def other(pid, engine, category, text, technique, note):
    return {
        "property_id": pid,
        "quick_cmd": "./check %s --tier quick" % pid,
        "thorough_cmd": "./check %s --tier thorough" % pid,
        "evidence_file": "evidence/%s.json" % pid,
        "replay_cmd_template": "./check %s --replay {path}" % pid,
        "engine": engine,
        "level_claimed": {"category": category, "text": text, "design_ref": "DESIGN.md section 5 (%s), section 10" % pid},
        "level_note": note,
        "technique": technique,
    }


def table(dav):
    checks = []
    claimed = ["C01", "C02", "C03", "C06", "C07", "C08", "C09", "C14", "C15", "C17"]
    for pid in claimed:
        checks.append(dav(pid, TEXT.get(pid, TEXT["C01"]),
                          "TLA+ model checking (TLC) + trace validation of recorded executions against the spec"))
    checks.append(other("C04", "crash", "fault_enumeration",
        "Every mutating file-system event of create/replace/no-op/delete/property-set on tree-git, bare-git and vdir stores (with varying prior contents, both metadata back ends) is a crash point: the store directory as it is just before the event, plus torn variants of the file being written, is re-opened by the real code and read completely (store API operations, the same operations arriving as HTTP requests, and operations preceded by earlier requests of the same process); TLC judges each image against CrashTrace.tla (old-or-new, opens, no reference to a missing object, acknowledged writes durable). The write protocols themselves are model checked exhaustively in StoreProto.tla, and the recorded gate sequences are validated against it. Death delivered as an exception (SIGINT) is injected at sampled executed lines of the store / git code and judged like a crash image; every operation is repeated with the temporary directory on another file system than the data; stores are written and re-opened by processes under LC_ALL=C; every crash image is followed by the repeated request.",
        "TLA+ model checking of the write protocol (StoreProto) + exhaustive crash-point enumeration on the real code judged by a TLA+ trace spec",
        "File-system operations persist in program order (no fsync reordering); torn writes sampled empty/half; audit-hook events are the crash points (kills between two Python-level events inside one C call are not distinguished); git CLI fsck as auditor; harness/compat.py."))
    checks.append(other("C05", "race", "model_checking",
        "TLC explores all interleavings of two writers in the implementation-shaped model StoreProto.tla (one action per file-system step) against the linearizability property Lin.tla; the real tree-git and bare-git stores are then run under systematically enumerated interleavings of their file-system steps (audit-hook scheduler: every preemption point, thorough: two preemptions; shared store object, separate store objects, and a store object opened while the other writer is in its critical section; a sample also as real HTTP requests to an aiohttp server) and every execution - with a follow-up operation, the served views and the etag each put answered with - is judged by TLC against Lin.tla; histories without overlap issued in turn through two long-lived store objects are judged sequentially (SeqVerdict). Races that the unchanged code has are listed in known_findings.json by store kind, operation kinds, clause and window. Every third run is followed by a put of a third name, every third by a delete of a name the pair wrote; half of the runs use a collection whose files are an hour old.",
        "TLA+ model checking (TLC) of the write protocol + deterministic schedule enumeration on the real code judged by a TLA+ linearizability spec",
        "Preemption only at file-system events (audit hook); pure-Python sections between two events are not scheduled; exceptions raised under ref-lock contention count as a locked refusal if they had no effect; harness/compat.py."))
    checks.append(other("C10", "index", "model_checking",
        "TLC checks exhaustively (small scope, thresholds 0 and 1) that the index protocol of IndexMgr.tla - one action per step of AutoIndexManager/MemoryIndex/_iter_with_filter_indexes - is transparent under the soundness assumption on extracted values, and shows that a lossy extraction breaks it. TLC-simulated histories are replayed on the real store (Store API on tree/bare/memory/vdir and HTTP REPORT, thresholds 0,1,2,default) and random histories (explicit operation lists) over 19 filters and 20 body classes (several components, TZID, DATE, empty and zero valued properties, unparseable files) are executed; every query is compared by TLC (IndexTrace.tla) with a history-free evaluation, and the real manager state (desired counters, available keys) is checked against the model step by step. Directed histories (damaged members repaired under their name, mixed components, escaped text) run at every level and threshold.",
        "TLA+ model checking (TLC) of the index protocol + trace validation of recorded query histories against the spec",
        "The oracle is the real filter.check() run by a store object that never answered a query (C11 covers check() itself); known findings identified by the classes of the differing members; harness/compat.py."))
    checks.append(other("C11", "calquery", "exploration",
        "CalQuery.tla transcribes RFC 4791 9.7.1-9.7.5 and the 9.9 time-range tables as TLA+ operators; TLC enumerates the complete finite case space (every presence/ordering cell of the VEVENT/VTODO/VJOURNAL/VFREEBUSY tables on a 7-point grid with both range boundaries inside: 308 component cases; 450 filter-shape x object-shape cases) with the expected verdicts. Every case is concretised in UTC, floating, TZID and DATE renderings under three effective time zones, uploaded and queried through REPORT calendar-query on the real server; TLC re-evaluates the operators on the observed results (CalQueryTrace.tla). The structural table is answered three times: with the default index threshold, from the index from the first query on, and never from the index. This is an exhaustive decision-table check with TLC as enumerator and oracle, not a behavioural model: claimed as exploration (exhaustive over the stated finite grid).",
        "TLA+ transcription of the RFC decision tables, enumerated by TLC and compared case by case with the implementation",
        "Recurrence expansion outside the grid; date arithmetic of icalendar/zoneinfo trusted; a wrong verdict is identified by its table coordinates; harness/compat.py."))
    checks.append(other("C12", "cardquery", "exploration",
        "CardQuery.tla transcribes RFC 6352 10.5 (anyof/allof, prop-filter presence / is-not-defined / test attribute, text-match with four match types, negation and three collations, param-filter) over texts on a six-letter alphabet with case pairs, non-ASCII letters and the blank (needles may begin or end with it); TLC enumerates every text-match x value case (quick: values up to length 2, thorough: 3) and a table of filter structures x multi-instance / parameterised cards with expected verdicts, plus nresults limits. Each query is executed through REPORT addressbook-query on the real server (both front ends) and the observed result sets are re-judged by TLC (CardQueryTrace.tla); address-data is compared with GET. Cards carry text outside the BMP. Exhaustive decision-table check, claimed as exploration.",
        "TLA+ transcription of the RFC matching rules, enumerated by TLC and compared case by case with the implementation",
        "vCard 3.0 cards with FN/N/EMAIL/NOTE only; a wrong verdict is identified by match type, collation, negation and the needle/value relation; harness/compat.py."))
    checks.append(other("C13", "pathmap", "exploration",
        "PathMap.tla defines the normal form of a request target (dot-segment removal clamped at the root) and the safety / as-normalised predicates; TLC enumerates every target up to 2 (quick) or 3 (thorough) segments over {existing collection, existing member, fresh name, '.', '..', empty, absolute path of a directory outside the root} x 1-4 leading slashes x 8 encodings (plain, escaped dots, escaped slash, mixed case, every separator escaped, three doubly escaped forms) with its normal form. Each target is sent with 9 methods (incl. as an href inside a multiget body) to a real aiohttp server on loopback and to the WSGI callable, with every file-system event of the process recorded through an audit hook, the surroundings of the data root hashed before/after, and the effect compared with the same method on the normalised path in a twin world; TLC judges every observation (PathMapTrace.tla). Exhaustive over the stated finite grammar; claimed as exploration.",
        "TLA+ path-normalisation spec enumerated by TLC; audit-hook recording of all file-system accesses of real requests; TLC judges each observation",
        "File-system accesses without a Python audit event would only show in the before/after snapshot; symlinks out of scope; reads of the user's git configuration by dulwich are library configuration, not user data; harness/compat.py."))
    checks.append(other("C16", "href", "exploration",
        "Href.tla defines emission (percent-encode every octet that is not unreserved) and dereferencing of member names over 11 character classes (letter, space, %, #, ?, ;, +, non-ASCII, digits so that escape-like names such as %20 occur); TLC checks the round-trip and injectivity theorems and enumerates the names (all up to length 3 in the thorough tier). For every name, under 3 route prefixes and both front ends, the member is created and every emitting context is exercised (PROPFIND Depth 1 and 0, sync-collection, calendar-query, multiget, POST Location, PROPPATCH / 404 response hrefs); each href is requested verbatim with a raw client and must return the resource it was emitted for; listings must contain every member exactly once and collection hrefs end in '/'. TLC judges the recorded round trips (HrefTrace.tla). The listing half is Layout.tla: TLC enumerates 60 collection trees (calendar / addressbook / plain collections with nested collections and files); each is built on the real server, every collection is asked with Depth 0 and 1, every listed href and every href inside a property value is dereferenced as sent, and LayoutTrace.tla judges the listing against Expected(tree, node, depth). Listing exactness along arbitrary write histories is additionally judged in every step of the Dav cluster (C01). Exhaustive over the stated name grammar; claimed as exploration.",
        "TLA+ href round-trip spec enumerated by TLC; every emitted href dereferenced verbatim against the real server; TLC judges the records",
        "Identity of a resource = the UID in the body GET returns; names are single path segments without '/' and without dots other than the extension; harness/compat.py."))
    checks.append(other("C18", "discovery", "model_checking",
        "Discovery.tla models the server life cycle (Start with none/--autocreate/--defaults, Stop, user writes) and the discovery walk; TLC checks ReachesAfterDefaults and StartPreserves on it. Every deployment of the grid (2 front ends x 5 route-prefix spellings (with and without trailing slash) x 4 principal paths x 9 start sequences; quick: a covering subset) is run for real - `python -m xandikos` and the xandikos.wsgi module behind WellknownRedirector as server processes on loopback - and walked with a raw client using only hrefs the server returned (RFC 3986 resolution): .well-known redirect, current-user-principal, calendar-home-set / addressbook-home-set, Depth 1 listing with resource types; user data is written after the first start and re-read after every restart; a digest of the data directory is taken around every start. TLC judges the recorded life cycles (DiscoveryTrace.tla).",
        "TLA+ model checking (TLC) of the life-cycle model + trace validation of recorded deployments of the real server processes",
        "Launchers load harness/compat.py before xandikos; the WSGI deployment is served by wsgiref with a Content-Length limited input stream; loopback networking."))
    na = [{"property_id": p, "reason": "check not built yet in this round; planned in DESIGN.md section 5"}
          for p in ALL if p not in claimed + ["C04", "C05", "C10", "C11", "C12", "C13", "C16", "C18"]]
    return checks, na
