HOOK_COMMITS = []
NOTES = ("All checks are model-based: explicit TLA+ specifications in spec/ checked by TLC and bound to the "
         "implementation by replaying TLC behaviours into the real code and validating recorded executions "
         "against trace specifications (see DESIGN.md). Exit 2 = machinery failure.")
ENGINES = [
    {"name": "dav", "path": "harness/davcheck.py",
     "serves_properties": ["C01", "C02", "C03", "C06", "C07", "C08", "C09", "C14", "C15", "C17"],
     "kind_free_text": "TLC exhaustive check of spec/DavMC.tla; TLC-simulated behaviours replayed on the real server; "
                       "random histories recorded and validated by TLC against spec/DavTrace.tla (+DavDeviations.tla)"},
]
ALL = ["C%02d" % i for i in range(1, 19)]

TEXT = {
 "C01": "Property-level TLA+ model (Dav.tla) checked exhaustively by TLC in small scope; the same outcome operators judge, through TLC trace validation (DavTrace.tla), every step of model-generated and random request histories executed on the real server (two front ends, route prefixes, tree/bare git, vdir and memory stores), with a full state audit after each request.",
}

def table(dav):
    checks = []
    claimed = ["C01", "C02", "C03", "C06", "C07", "C08", "C09", "C14", "C15", "C17"]
    for pid in claimed:
        checks.append(dav(pid, TEXT.get(pid, TEXT["C01"]),
                          "TLA+ model checking (TLC) + trace validation of recorded executions against the spec"))
    na = [{"property_id": p, "reason": "check not built yet in this round; planned in DESIGN.md section 5"}
          for p in ALL if p not in claimed]
    return checks, na
