#!/bin/bash
# usage: tools/try_seed_dev.sh <seed-dir> <prop> [<prop>...]   like try_seed.sh, in the development worktrees
# (this checkout against ${REPO_DEV:-/var/tmp/repo_dev}), so that /repo and /verif stay untouched
set -u
d=$(realpath $1); shift
R=${REPO_DEV:-/var/tmp/repo_dev}
cd "$(dirname "$0")/.."
if ! git -C $R diff --quiet; then echo "$R has uncommitted changes"; exit 2; fi
git -C $R apply "$d/patch.diff" || { echo "patch does not apply"; exit 2; }
trap 'git -C '$R' checkout -- . ; git -C '$R' clean -fdq xandikos 2>/dev/null' EXIT
for p in "$@"; do
  ./devcheck $p --tier ${TIER:-quick} > /var/tmp/devseed_$(basename $d)_$p.txt 2>&1; rc=$?
  echo "$(basename $d) $p exit=$rc violations=$(grep -c '^VIOLATION' /var/tmp/devseed_$(basename $d)_$p.txt) $(grep -A1 '^VIOLATION' /var/tmp/devseed_$(basename $d)_$p.txt | grep -v '^VIOLATION\|^--' | sed 's/ at step.*//' | cut -c1-160 | sort | uniq -c | sort -rn | head -3 | tr '\n' ';')"
done
