#!/bin/bash
# usage: tools/regress_dev.sh [seed...]   like regress.sh through ./devcheck (development worktrees)
cd "$(dirname "$0")/.."
for seed in "${@:-0}"; do
  for p in C01 C02 C03 C04 C05 C06 C07 C08 C09 C10 C11 C12 C13 C14 C15 C16 C17 C18; do
    s=$(date +%s)
    VERIF_SEED=$seed ./devcheck $p --tier quick > /var/tmp/regdev_${p}_$seed.txt 2>&1; rc=$?
    e=$(date +%s)
    echo "seed=$seed $p exit=$rc secs=$((e-s)) viol=$(grep -c '^VIOLATION' /var/tmp/regdev_${p}_$seed.txt) known=$(grep -c '^KNOWN' /var/tmp/regdev_${p}_$seed.txt)"
  done
done
