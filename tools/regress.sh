#!/bin/bash
# usage: tools/regress.sh [seed...]   runs every quick check for each seed, prints exit codes and times
cd /verif
for seed in "${@:-0}"; do
  for p in C01 C02 C03 C04 C05 C06 C07 C08 C09 C10 C11 C12 C13 C14 C15 C16 C17 C18; do
    s=$(date +%s)
    VERIF_SEED=$seed ./check $p --tier quick > /var/tmp/reg_${p}_$seed.txt 2>&1; rc=$?
    e=$(date +%s)
    echo "seed=$seed $p exit=$rc secs=$((e-s)) viol=$(grep -c '^VIOLATION' /var/tmp/reg_${p}_$seed.txt) known=$(grep -c '^KNOWN' /var/tmp/reg_${p}_$seed.txt)"
  done
done
