#!/usr/bin/env python3
"""Regenerates MANIFEST.json from the table below (kept in one place so it stays valid)."""
import json, os, subprocess
HERE = os.path.dirname(os.path.dirname(os.path.abspath(__file__)))

DAV_NOTE = ("Trusted base: TLC; harness/compat.py (library shims for dulwich>=1.0 / icalendar>=7); the independent "
            "content-line tokenizer and multistatus parser in harness/alpha.py; the git CLI as auditor; "
            "SHA-1/MD5 collision resistance. Bounded: exhaustive model depth and history length/alphabet of the "
            "executed traces are finite (numbers in the evidence file).")

def dav(pid, text, technique):
    return {
        "property_id": pid,
        "quick_cmd": "./check %s --tier quick" % pid,
        "thorough_cmd": "./check %s --tier thorough" % pid,
        "evidence_file": "evidence/%s.json" % pid,
        "replay_cmd_template": "./check %s --replay {path}" % pid,
        "engine": "dav",
        "level_claimed": {"category": "model_checking", "text": text, "design_ref": "DESIGN.md section 5 (%s), section 10" % pid},
        "level_note": DAV_NOTE,
        "technique": technique,
    }

CHECKS = []
NOT_APPLICABLE = []

def build():
    import importlib.util
    spec = importlib.util.spec_from_file_location("mt", os.path.join(HERE, "tools", "manifest_table.py"))
    mt = importlib.util.module_from_spec(spec); spec.loader.exec_module(mt)
    checks, na = mt.table(dav)
    hooks_commits = mt.HOOK_COMMITS
    m = {
        "version": 1,
        "setup_cmd": "./check --setup",
        "hooks": {
            "guard": "XANDIKOS_VERIF",
            "enable": "no source hooks are installed; checks import xandikos from /repo's working tree (PYTHONPATH=/repo) and observe it through HTTP, the Store API, sys.addaudithook and the git CLI",
            "baseline_off_cmd": "cd /repo && env -u XANDIKOS_VERIF /venv/bin/python -m pytest -ra -q -p no:cacheprovider --timeout=900 --continue-on-collection-errors",
            "source_commits": hooks_commits,
            "add_only": True,
        },
        "engines": mt.ENGINES,
        "checks": checks,
        "not_applicable": na,
        "notes": mt.NOTES,
    }
    with open(os.path.join(HERE, "MANIFEST.json"), "w") as f:
        json.dump(m, f, indent=1)
    # validate
    try:
        import jsonschema
        jsonschema.validate(m, json.load(open("/root/.vp/MANIFEST.schema.json")))
        print("MANIFEST.json valid:", len(checks), "checks,", len(na), "not applicable")
    except ImportError:
        print("jsonschema not importable here; wrote MANIFEST.json")

if __name__ == "__main__":
    build()
