#!/bin/bash
# usage: tools/verify_seed.sh <seed-dir> <agent-worktree-path>
# confirms in a scratch worktree of /repo HEAD: demo passes pristine / fails patched; baseline test set unchanged.
set -u
d=/verif/$1; orig=$2
wt=/var/tmp/wt_verify_$$
git -C /repo worktree add --detach $wt HEAD >/dev/null 2>&1 || exit 2
trap 'git -C /repo worktree remove --force '$wt' >/dev/null 2>&1' EXIT
cd $wt
sed "s#$orig#$wt#g" $d/demo.py > demo.py
base() { /venv/bin/python -m pytest -q -p no:cacheprovider --timeout=900 --continue-on-collection-errors -rA 2>&1 | grep -E "^(PASSED|FAILED|ERROR)" | sort | md5sum | cut -c1-8; }
timeout 600 /venv/bin/python demo.py >/dev/null 2>&1; p0=$?
b0=$(base)
git apply $d/patch.diff || { echo "patch does not apply"; exit 2; }
timeout 600 /venv/bin/python demo.py >/dev/null 2>&1; p1=$?
b1=$(base)
echo "$1: demo pristine=$p0 patched=$p1 ; baseline pristine=$b0 patched=$b1"
