#!/bin/bash
# usage: tools/regress_seeds_dev.sh [pattern]   regress_seeds.sh through the development worktrees
cd "$(dirname "$0")/.."
export REPO_DEV=${REPO_DEV:-/var/tmp/repo_seed}
for d in seeded/${1:-*}/; do
  d=${d%/}
  [ -f $d/patch.diff ] || continue
  if [[ $d == seeded/benign_* ]]; then props="C01 C03 C07 C16 C05"; want=0; else props=$(python3 -c "import json;m=json.load(open('$d/meta.json'));print(' '.join(m.get('detected_by') or [m['property']]))"); want=1; fi
  git -C $REPO_DEV apply --check $PWD/$d/patch.diff 2>/dev/null || { echo "$d DOES-NOT-APPLY"; continue; }
  out=$(tools/try_seed_dev.sh $d $props 2>&1 | sed 's/ violations=.*//' | tr '\n' ' ')
  ok=1; for rc in $(echo "$out" | grep -o 'exit=[0-9]*' | cut -d= -f2); do [ "$rc" = "$want" ] || ok=0; done
  echo "$([ $ok = 1 ] && echo OK || echo MISS) $out"
done
